import Hm.C07Retained
import Hm.ReqProps

/-! The limits of a `Request` are public fields: a caller may change them between two `parse` calls.  The theorems
    C06 / C07 for requests are therefore also stated for a *different limit configuration at every call*
    (what the correspondence op `REQV` exercises): no call ends in a trap, and what the parser retains stays bounded
    by what it consumed.  Only the cfg-independent half of the parser's invariant is needed for this. -/

variable {u : UriImpl}

/-- the part of the request parser's invariant that does not mention the limits -/
def ReqInv0 (s : ReqState u) : Prop :=
  match s.phase with
  | .body n => s.body.length ≤ n
  | _ => s.body = []

theorem reqInv0_new : ReqInv0 (Request.new u) := by simp [ReqInv0, Request.new]

theorem reqStep_inv0 {cfg : ReqCfg} {s s' : ReqState u} {rem : Bytes} {i : Internal} {c : Nat}
    (hI : ReqInv0 s) (h : reqStep u cfg s rem = .ok i s' c) : ReqInv0 s' := by
  unfold reqStep at h
  unfold ReqInv0 at hI
  split at h
  · rename_i n hph
    simp only [hph] at hI
    unfold bodyStep at h
    split at h
    · simp at h
    · split at h
      · simp at h; obtain ⟨_, rfl, _⟩ := h
        simp [ReqInv0, hph]; omega
      · split at h
        · simp at h
        · simp at h; obtain ⟨_, rfl, _⟩ := h
          simp [ReqInv0, hph]; omega
  · rename_i hph
    simp only [hph] at hI
    unfold hdrStep at h
    split at h
    · simp at h
    · split at h
      · simp at h
      · split at h
        · split at h
          · simp at h
          · simp at h; obtain ⟨_, rfl, _⟩ := h; simp [ReqInv0, hph, hI]
        · unfold afterHeaders at h
          split at h
          · simp at h; obtain ⟨_, rfl, _⟩ := h; simp [ReqInv0, hph, hI]
          · split at h
            · simp at h
            · split at h
              · simp at h
              · simp at h; obtain ⟨_, rfl, _⟩ := h; simp [ReqInv0, hI]
  · rename_i hph
    simp only [hph] at hI
    unfold rlStep at h
    split at h
    · split at h
      · simp at h
      · split at h
        · simp at h
        · simp at h; obtain ⟨_, rfl, _⟩ := h; simp [ReqInv0, hph, hI]
    · split at h
      · simp at h
      · split at h
        · simp at h
        · split at h
          · simp at h
          · split at h
            · simp at h
            · simp at h; obtain ⟨_, rfl, _⟩ := h; simp [ReqInv0, hI]

theorem reqStep_no_panic0 {cfg : ReqCfg} {s : ReqState u} {rem : Bytes} {e : Fail}
    (hI : ReqInv0 s) (h : reqStep u cfg s rem = .fail e) : ∃ c, e = .err c := by
  unfold reqStep at h
  unfold ReqInv0 at hI
  split at h
  · rename_i n hph
    simp only [hph] at hI
    unfold bodyStep at h
    split at h
    · omega
    · split at h
      · simp at h
      · split at h
        · simp at h; exact ⟨_, h.symm⟩
        · simp at h
  · unfold hdrStep at h
    cases hp : Headers.parse cfg.hl s.headers (stripDanglingCr rem) with
    | error e0 => simp [hp] at h; exact ⟨_, h.symm⟩
    | ok r =>
      obtain ⟨hs, st, c0⟩ := r
      simp only [hp] at h
      cases hc : countR cfg.max s.totalBytes c0 with
      | error f => simp [hc] at h; subst h; exact ⟨_, countR_error_is_err hc⟩
      | ok t =>
        simp only [hc] at h
        cases st with
        | incomplete => simp only at h; split at h <;> simp at h; exact ⟨_, h.symm⟩
        | complete =>
          simp only at h
          unfold afterHeaders at h
          split at h
          · simp at h
          · split at h
            · simp at h; exact ⟨_, h.symm⟩
            · rename_i cl _
              cases hc2 : countR cfg.max t cl with
              | error f => simp [hc2] at h; subst h; exact ⟨_, countR_error_is_err hc2⟩
              | ok t2 => simp [hc2] at h
  · unfold rlStep at h
    cases hf : findCrlf rem with
    | none =>
      simp only [hf] at h
      split at h
      · simp at h; exact ⟨_, h.symm⟩
      · split at h <;> simp at h; exact ⟨_, h.symm⟩
    | some i =>
      simp only [hf] at h
      split at h
      · simp at h; exact ⟨_, h.symm⟩
      · split at h
        · simp at h; exact ⟨_, h.symm⟩
        · cases hc : countR cfg.max s.totalBytes (i + 2) with
          | error f => simp [hc] at h; subst h; exact ⟨_, countR_error_is_err hc⟩
          | ok t =>
            simp only [hc] at h
            split at h
            · simp at h; exact ⟨_, h.symm⟩
            · simp at h

/-- a completed part moves the parser to a later phase (whatever the limits) -/
theorem reqStep_rank {cfg : ReqCfg} {s s' : ReqState u} {rem : Bytes} {c : Nat}
    (h : reqStep u cfg s rem = .ok .completePart s' c) : reqμ s' 0 < reqμ s 0 := by
  unfold reqStep at h
  split at h
  · unfold bodyStep at h
    split at h
    · simp at h
    · split at h
      · simp at h
      · split at h <;> simp at h
  · rename_i hph
    unfold hdrStep at h
    split at h
    · simp at h
    · split at h
      · simp at h
      · split at h
        · split at h <;> simp at h
        · unfold afterHeaders at h
          split at h
          · simp at h
          · split at h
            · simp at h
            · split at h
              · simp at h
              · simp at h; obtain ⟨rfl, _⟩ := h; simp [reqμ, hph]
  · rename_i hph
    unfold rlStep at h
    split at h
    · split at h
      · simp at h
      · split at h <;> simp at h
    · split at h
      · simp at h
      · split at h
        · simp at h
        · split at h
          · simp at h
          · split at h
            · simp at h
            · simp at h; obtain ⟨rfl, _⟩ := h; simp [reqμ, hph]

theorem reqLoop_ok0 {cfg : ReqCfg} {f : Nat} {s : ReqState u} {rem : Bytes} {acc : Nat}
    (hI : ReqInv0 s) (hf : reqμ s 0 ≤ f) :
    ∃ r, (requestSys u cfg).loop f s rem acc = some r ∧
      (∀ e, r = .fail e → ∃ c, e = .err c) ∧ (∀ st s' n, r = .ok st s' n → ReqInv0 s') := by
  induction f generalizing s rem acc with
  | zero => have : 0 < reqμ s 0 := by unfold reqμ; split <;> omega
            omega
  | succ f ih =>
    unfold Sys.loop
    cases hs : (requestSys u cfg).step s rem with
    | fail e1 =>
      refine ⟨_, rfl, ?_, by simp⟩
      intro e he; simp at he; subst he
      exact reqStep_no_panic0 hI hs
    | ok i s1 c1 =>
      have hI1 := reqStep_inv0 hI hs
      cases i with
      | completePart =>
        simp only
        have := reqStep_rank hs
        exact ih hI1 (by omega)
      | completeWhole => exact ⟨_, rfl, by simp, by intro st s' n h; simp at h; rw [← h.2.1]; exact hI1⟩
      | incomplete => exact ⟨_, rfl, by simp, by intro st s' n h; simp at h; rw [← h.2.1]; exact hI1⟩

theorem reqParse_ok0 {cfg : ReqCfg} {s : ReqState u} {raw : Bytes} (hI : ReqInv0 s) :
    (∀ e, (requestSys u cfg).parse s raw = .fail e → ∃ c, e = .err c) ∧
    (∀ st s' n, (requestSys u cfg).parse s raw = .ok st s' n → ReqInv0 s') := by
  obtain ⟨r, hr, h1, h2⟩ := reqLoop_ok0 (cfg := cfg) (rem := raw) (acc := 0) hI (Nat.le_refl (reqμ s 0))
  have : (requestSys u cfg).parse s raw = r := by
    unfold Sys.parse
    rw [show (requestSys u cfg).μ s raw.length = reqμ s 0 from rfl, hr]
  rw [this]
  exact ⟨h1, h2⟩

/-- the calling protocol with the limits the caller has set before each call -/
def reqRunV (u : UriImpl) (c : GConn Fail (ReqState u)) (steps : List (ReqCfg × Bytes)) : GConn Fail (ReqState u) :=
  steps.foldl (fun c p => (requestSys u p.1).deliver c p.2) c

def ConnOk0 (c : GConn Fail (ReqState u)) : Prop :=
  ReqInv0 c.st ∧ ∀ e, c.verdict = .failed e → ∃ cat, e = .err cat

theorem deliver_ok0 {cfg : ReqCfg} {c : GConn Fail (ReqState u)} (h : ConnOk0 c) (d : Bytes) :
    ConnOk0 ((requestSys u cfg).deliver c d) := by
  unfold Sys.deliver
  cases hv : c.verdict with
  | complete => simpa [hv] using h
  | failed e => simpa [hv] using h
  | more =>
    simp only
    have hp := reqParse_ok0 (cfg := cfg) (raw := c.pending ++ d) h.1
    cases hq : (requestSys u cfg).parse c.st (c.pending ++ d) with
    | fail e =>
      refine ⟨h.1, ?_⟩
      intro e' he'; simp at he'; subst he'
      exact hp.1 _ hq
    | ok st s' n =>
      have := hp.2 _ _ _ hq
      cases st <;> exact ⟨this, by simp⟩

/-- **C06 for requests with the limits changed between calls**: whatever is delivered, in whatever pieces, and
    whatever limits the caller sets before each call, no call ends in a trap -/
theorem C06_request_no_crash_limits_vary (u : UriImpl) (steps : List (ReqCfg × Bytes)) :
    ∀ e, (reqRunV u (reqFresh u) steps).verdict = .failed e → ∃ cat, e = .err cat := by
  have h0 : ConnOk0 (reqFresh u) := ⟨reqInv0_new, by simp [reqFresh]⟩
  suffices ∀ c, ConnOk0 c → ConnOk0 (reqRunV u c steps) from (this _ h0).2
  induction steps with
  | nil => intro c hc; exact hc
  | cons p ps ih => intro c hc; exact ih _ (deliver_ok0 hc p.2)

/-- **C07 for requests with the limits changed between calls**: what the parser holds is at most the three bytes of
    the initial `GET` plus the bytes consumed, whatever limits are in force at which call -/
theorem C07_request_retained_limits_vary (u : UriImpl) (steps : List (ReqCfg × Bytes)) :
    reqRetained (reqRunV u (reqFresh u) steps).st ≤ 3 + (reqRunV u (reqFresh u) steps).total := by
  have h0 : reqRetained (Request.new u) = 3 := by simp [reqRetained, Request.new, hdrSize, kGet]
  suffices ∀ c : GConn Fail (ReqState u), reqRetained (reqRunV u c steps).st + c.total ≤ reqRetained c.st + (reqRunV u c steps).total by
    have := this (reqFresh u)
    have e1 : (reqFresh u).total = 0 := rfl
    have e2 : (reqFresh u).st = Request.new u := rfl
    rw [e1, e2, h0] at this
    omega
  induction steps with
  | nil => intro c; simp [reqRunV]
  | cons p ps ih =>
    intro c
    have h1 := Sys.deliver_size (reqStep_grows (u := u) p.1) c p.2
    have h2 := ih ((requestSys u p.1).deliver c p.2)
    have hm := Sys.deliver_total_mono (M := requestSys u p.1) c p.2
    have e : reqRunV u c (p :: ps) = reqRunV u ((requestSys u p.1).deliver c p.2) ps := by simp [reqRunV]
    rw [e]
    split at h1 <;> omega
