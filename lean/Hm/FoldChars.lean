import Hm.Fold

/-! `fold_header` of rhymessage walks `line.char_indices()`; the model `foldHeader` of `Hm/Fold` walks byte indices.
    This file transcribes the iterator chain over *character starts* (in valid UTF-8: the bytes that are not
    continuation bytes `10xxxxxx`) and proves that it computes what `foldHeader` computes, for every line — the
    characters searched for, SP and HT, are never continuation bytes.  With it the folding model answers for every
    Rust `String`, not for ASCII lines only. -/

def isCont (b : UInt8) : Bool := decide (128 ≤ b.toNat) && decide (b.toNat < 192)

theorem isWsp_not_cont {b : UInt8} (h : isWsp b = true) : isCont b = false := by
  unfold isWsp at h
  simp only [Bool.or_eq_true, beq_iff_eq] at h
  rcases h with h | h <;> subst h <;> decide

/-- byte offsets of `line.char_indices()` (ascending) -/
def charIdx (line : Bytes) : List Nat := (List.range line.length).filter fun i => !isCont (line.getD i 0)

/-- `fold_header` as written: `char_indices().rev().skip_while(i > limit).take_while(i >= skip).find_map(WSP)`, then
    `i + line[i..].char_indices().take_while(WSP).last().unwrap()`; `none` = could not be folded; the `unwrap` cannot
    fail (the character at `i` is white space) and is rendered as `none` too -/
def foldHeaderChars (line : Bytes) (limit skip : Nat) : Option (Bytes × Bytes) :=
  if line.length ≤ limit then some (line, [])
  else
    match (((charIdx line).reverse.dropWhile fun i => decide (i > limit)).takeWhile fun i => decide (i ≥ skip)).find?
        fun i => isWsp (line.getD i 0) with
    | none => none
    | some i =>
      let rest := line.drop i
      match ((charIdx rest).takeWhile fun k => isWsp (rest.getD k 0)).getLast? with
      | none => none
      | some j => some (line.take i, line.drop (i + j))

/-! ### the search for the split point -/

/-- descending list of the character starts below `n` -/
def gIdx (q : Nat → Bool) (n : Nat) : List Nat := ((List.range n).filter q).reverse

theorem gIdx_succ (q : Nat → Bool) (n : Nat) : gIdx q (n + 1) = if q n then n :: gIdx q n else gIdx q n := by
  unfold gIdx
  rw [List.range_succ, List.filter_append]
  by_cases h : q n = true <;> simp [h]

theorem gIdx_lt (q : Nat → Bool) (n : Nat) : ∀ i ∈ gIdx q n, i < n := by
  intro i hi
  unfold gIdx at hi
  simp at hi
  exact hi.1

theorem dropWhile_gIdx_small (q : Nat → Bool) (limit n : Nat) (h : n ≤ limit + 1) :
    (gIdx q n).dropWhile (fun i => decide (i > limit)) = gIdx q n := by
  cases hg : gIdx q n with
  | nil => rfl
  | cons a t =>
    have := gIdx_lt q n a (by rw [hg]; simp)
    rw [List.dropWhile_cons]
    have : ¬ a > limit := by omega
    simp [this]

theorem dropWhile_gIdx (q : Nat → Bool) (limit n : Nat) :
    (gIdx q n).dropWhile (fun i => decide (i > limit)) = gIdx q (min n (limit + 1)) := by
  induction n with
  | zero => simp [gIdx]
  | succ n ih =>
    by_cases h : n + 1 ≤ limit + 1
    · rw [dropWhile_gIdx_small q limit (n + 1) h, Nat.min_eq_left h]
    · have hn : n > limit := by omega
      rw [gIdx_succ]
      have e : min (n + 1) (limit + 1) = min n (limit + 1) := by omega
      rw [e]
      split
      · rw [List.dropWhile_cons]; simp [hn]; exact ih
      · exact ih

theorem find_none_below (p : Nat → Bool) (skip m : Nat) (h : m ≤ skip) :
    (List.range m).reverse.find? (fun i => decide (i ≥ skip) && p i) = none := by
  rw [List.find?_eq_none]
  intro i hi
  simp at hi
  simp; intro h2; omega

theorem find_take_gIdx (q p : Nat → Bool) (hpq : ∀ i, p i = true → q i = true) (skip m : Nat) :
    ((gIdx q m).takeWhile fun i => decide (i ≥ skip)).find? p
      = (List.range m).reverse.find? (fun i => decide (i ≥ skip) && p i) := by
  induction m with
  | zero => simp [gIdx]
  | succ m ih =>
    rw [gIdx_succ, List.range_succ, List.reverse_append]
    simp only [List.reverse_cons, List.reverse_nil, List.nil_append, List.cons_append, List.find?_cons]
    by_cases hq : q m = true
    · simp only [hq, if_true, List.takeWhile_cons]
      by_cases hs : m ≥ skip
      · simp only [hs, decide_true, if_true, List.find?_cons, Bool.true_and]
        cases hp : p m with
        | true => rfl
        | false => exact ih
      · simp only [hs, decide_false, Bool.false_eq_true, if_false, List.find?_nil, Bool.false_and]
        exact (find_none_below p skip m (by omega)).symm
    · have hp : p m = false := by
        cases hp : p m with
        | false => rfl
        | true => exact absurd (hpq m hp) hq
      simp only [hq, Bool.false_eq_true, if_false, hp, Bool.and_false]
      exact ih

/-! ### the run of white space that starts at the split point -/

theorem charIdx_cons (b : UInt8) (t : Bytes) :
    charIdx (b :: t) = (if isCont b then [] else [0]) ++ (charIdx t).map (· + 1) := by
  unfold charIdx
  rw [List.length_cons, List.range_succ_eq_map, List.filter_cons]
  simp only [List.getD_cons_zero, List.filter_map]
  by_cases h : isCont b = true
  · simp [h]; congr 1
  · simp [h]; congr 1

/-- no continuation byte directly behind SP / HT: true of every valid UTF-8 text (an ASCII byte is a whole character,
    so the next byte starts one) -/
def wspThenStart : Bytes → Bool
  | a :: b :: t => !(isWsp a && isCont b) && wspThenStart (b :: t)
  | _ => true

theorem run_takeWhile (rest : Bytes) (hstart : ∀ b ∈ rest.head?, isCont b = false) (hw : wspThenStart rest = true) :
    (charIdx rest).takeWhile (fun k => isWsp (rest.getD k 0)) = List.range (rest.takeWhile isWsp).length := by
  induction rest with
  | nil => simp [charIdx]
  | cons b t ih =>
    have hc : isCont b = false := hstart b (by simp)
    rw [charIdx_cons]
    simp only [hc, Bool.false_eq_true, if_false, List.cons_append, List.nil_append, List.takeWhile_cons, List.getD_cons_zero]
    by_cases hwb : isWsp b = true
    · simp only [hwb, if_true, List.length_cons]
      rw [List.range_succ_eq_map]
      congr 1
      have ht : ∀ b' ∈ t.head?, isCont b' = false := by
        intro b' hb'
        cases t with
        | nil => simp at hb'
        | cons c t' =>
          simp at hb'; subst hb'
          simp only [wspThenStart, hwb, Bool.true_and, Bool.and_eq_true, Bool.not_eq_true'] at hw
          exact hw.1
      have hwt : wspThenStart t = true := by
        cases t with
        | nil => rfl
        | cons c t' => simp only [wspThenStart, Bool.and_eq_true] at hw; exact hw.2
      rw [← ih ht hwt, List.takeWhile_map]
      congr 1
    · have hw' : isWsp b = false := by simpa using hwb
      simp [hw']

theorem wspThenStart_drop (line : Bytes) (h : wspThenStart line = true) : ∀ i, wspThenStart (line.drop i) = true := by
  induction line with
  | nil => intro i; simp [wspThenStart]
  | cons a t ih =>
    intro i
    cases i with
    | zero => simpa using h
    | succ i =>
      simp only [List.drop_succ_cons]
      apply ih
      cases t with
      | nil => rfl
      | cons c t' => simp only [wspThenStart, Bool.and_eq_true] at h; exact h.2

theorem getLast?_range_succ (n : Nat) : (List.range (n + 1)).getLast? = some n := by
  rw [List.range_succ]; simp

/-- **the search over character starts is the search over bytes**: for every line in which no continuation byte
    follows SP / HT (every valid UTF-8 text), `fold_header` as written computes what the model `foldHeader` computes -/
theorem foldHeaderChars_eq (line : Bytes) (limit skip : Nat) (hw : wspThenStart line = true) :
    foldHeaderChars line limit skip = foldHeader line limit skip := by
  unfold foldHeaderChars foldHeader
  by_cases hfit : line.length ≤ limit
  · simp [hfit]
  · simp only [hfit, if_false]
    have hm : min line.length (limit + 1) = min limit (line.length - 1) + 1 := by omega
    have hfind : (((charIdx line).reverse.dropWhile fun i => decide (i > limit)).takeWhile fun i => decide (i ≥ skip)).find?
          (fun i => isWsp (line.getD i 0))
        = (List.range (min limit (line.length - 1) + 1)).reverse.find?
            (fun i => decide (i ≥ skip) && (line.getD i 0 == SP || line.getD i 0 == HT)) := by
      have e : (charIdx line).reverse = gIdx (fun i => !isCont (line.getD i 0)) line.length := rfl
      rw [e, dropWhile_gIdx, find_take_gIdx _ (fun i => isWsp (line.getD i 0))
        (fun i hi => by show (!isCont (line.getD i 0)) = true; rw [isWsp_not_cont hi]; rfl), hm]
      rfl
    rw [hfind]
    cases hf : (List.range (min limit (line.length - 1) + 1)).reverse.find?
        (fun i => decide (i ≥ skip) && (line.getD i 0 == SP || line.getD i 0 == HT)) with
    | none => rfl
    | some i =>
      simp only
      have hp := List.find?_some hf
      simp only [Bool.and_eq_true, decide_eq_true_eq] at hp
      have hmem := List.mem_of_find?_eq_some hf
      simp only [List.mem_reverse, List.mem_range] at hmem
      have hi : i < line.length := by omega
      have hwi : isWsp (line.getD i 0) = true := hp.2
      have hhead : (line.drop i).head? = some (line.getD i 0) := by
        rw [List.head?_drop]; simp [List.getD, hi]
      have hstart : ∀ b ∈ (line.drop i).head?, isCont b = false := by
        intro b hb; rw [hhead] at hb; simp at hb; subst hb; exact isWsp_not_cont hwi
      rw [run_takeWhile (line.drop i) hstart (wspThenStart_drop line hw i)]
      have hrun : 1 ≤ ((line.drop i).takeWhile isWsp).length := by
        cases hd : line.drop i with
        | nil => rw [hd] at hhead; simp at hhead
        | cons b t =>
          rw [hd] at hhead
          have hb : b = line.getD i 0 := Option.some.inj hhead
          rw [List.takeWhile_cons, hb, hwi]; simp
      obtain ⟨k, hk⟩ : ∃ k, ((line.drop i).takeWhile isWsp).length = k + 1 :=
        ⟨((line.drop i).takeWhile isWsp).length - 1, by omega⟩
      have hk' : ((line.drop i).takeWhile fun b => b == SP || b == HT).length = k + 1 := hk
      rw [hk, getLast?_range_succ, hk']
      simp only
      rfl
