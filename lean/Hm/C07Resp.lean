import Hm.ReqLaws2
import Hm.C07

/-! C07 (second sentence) for the chunk decoder and for response parsing, repaired tree -/

theorem decodeSize_reserve (ov : Bool) (t : Tree) (hrep : t.repaired = true) (c : ChunkState) (raw : Bytes)
    (po : PhaseOut ChunkState) (h : decodeSize ov t c raw = .ok po) :
    ∀ r ∈ po.reserves, r.additional ≤ raw.length := by
  unfold decodeSize at h
  cases hf : findCrlf raw with
  | none => simp [hf] at h; subst h; simp
  | some e =>
    simp only [hf] at h
    split at h
    · simp at h
    · cases hn : parseChunkSize t (raw.take e) with
      | none => simp [hn] at h
      | some n =>
        simp only [hn, hrep, if_true, bind, Outcome.bind] at h
        cases hr : (vecReserve "chunk.buffer" c.buffer.length (min n (raw.length - (e + 2))) : Out Reserve) with
        | err x => simp [hr] at h
        | panic k => simp [hr] at h
        | ok r =>
          simp only [hr] at h
          simp at h; subst h
          intro r' hr'
          simp at hr'; subst hr'
          rw [vecReserve_additional hr]; omega

theorem decodeData_reserve (c : ChunkState) (raw : Bytes) : (decodeData c raw).reserves = [] := by
  unfold decodeData; simp only; split <;> rfl

theorem decodeTerminator_reserve (c : ChunkState) (raw : Bytes) (po : PhaseOut ChunkState)
    (h : decodeTerminator c raw = .ok po) : po.reserves = [] := by
  unfold decodeTerminator at h
  split at h
  · simp at h; subst h; rfl
  · split at h
    · simp at h; subst h; rfl
    · simp at h
  · split at h
    · simp at h; subst h; rfl
    · simp at h

theorem decodeTrailer_reserve (c : ChunkState) (raw : Bytes) (po : PhaseOut ChunkState)
    (h : decodeTrailer c raw = .ok po) : po.reserves = [] := by
  unfold decodeTrailer at h
  cases hp : (liftH Cat.Trailer (Headers.parse none c.trailer raw) : Out _) with
  | err e => simp [hp, bind, Outcome.bind] at h
  | panic k => simp [hp, bind, Outcome.bind] at h
  | ok r0 =>
    obtain ⟨hs, st, c0⟩ := r0
    simp only [hp, bind, Outcome.bind] at h
    cases st <;> (simp at h; subst h; rfl)

theorem chunk_loop_reserve (ov : Bool) (t : Tree) (hrep : t.repaired = true) (raw : Bytes) (B : Nat) (hB : raw.length ≤ B) :
    ∀ (fuel : Nat) (c : ChunkState) (tc : Nat) (rs : List Reserve) (o : ParseOut ChunkState),
      (∀ r ∈ rs, r.additional ≤ B) → ChunkState.decodeLoop ov t fuel c raw tc rs = .ok o →
      ∀ r ∈ o.reserves, r.additional ≤ B := by
  intro fuel
  induction fuel with
  | zero =>
    intro c tc rs o hrs h
    simp [ChunkState.decodeLoop] at h; subst h; exact hrs
  | succ fuel ih =>
    intro c tc rs o hrs h
    unfold ChunkState.decodeLoop at h
    simp only at h
    have hlen : (raw.drop tc).length ≤ B := by simp; omega
    have hjp : ∀ po : PhaseOut ChunkState, (∀ r ∈ po.reserves, r.additional ≤ B) →
        (match po.internal with
          | .completePart => ChunkState.decodeLoop ov t fuel po.st raw (tc + po.consumed) (rs ++ po.reserves)
          | .completeWhole => Outcome.ok { st := po.st, status := Status.complete, consumed := tc + po.consumed, reserves := rs ++ po.reserves }
          | .incomplete => Outcome.ok { st := po.st, status := Status.incomplete, consumed := tc + po.consumed, reserves := rs ++ po.reserves }) = .ok o →
        ∀ r ∈ o.reserves, r.additional ≤ B := by
      intro po hb hcont
      have hrs' : ∀ r ∈ rs ++ po.reserves, r.additional ≤ B := by
        intro r hr; simp only [List.mem_append] at hr
        rcases hr with hr | hr
        · exact hrs r hr
        · exact hb r hr
      cases hi : po.internal with
      | completePart => simp only [hi] at hcont; exact ih _ _ _ _ hrs' hcont
      | completeWhole => simp only [hi] at hcont; simp at hcont; subst hcont; exact hrs'
      | incomplete => simp only [hi] at hcont; simp at hcont; subst hcont; exact hrs'
    cases hph : c.phase with
    | chunkData =>
      simp only [hph, bind, Outcome.bind] at h
      exact hjp _ (by rw [decodeData_reserve]; simp) h
    | chunkSize =>
      simp only [hph, bind, Outcome.bind] at h
      cases hp : decodeSize ov t c (raw.drop tc) with
      | err x => simp [hp] at h
      | panic k => simp [hp] at h
      | ok po =>
        simp only [hp] at h
        exact hjp po (fun r hr => Nat.le_trans (decodeSize_reserve ov t hrep _ _ _ hp r hr) hlen) h
    | chunkTerminator =>
      simp only [hph, bind, Outcome.bind] at h
      cases hp : decodeTerminator c (raw.drop tc) with
      | err x => simp [hp] at h
      | panic k => simp [hp] at h
      | ok po =>
        simp only [hp] at h
        exact hjp po (by rw [decodeTerminator_reserve _ _ _ hp]; simp) h
    | trailer =>
      simp only [hph, bind, Outcome.bind] at h
      cases hp : decodeTrailer c (raw.drop tc) with
      | err x => simp [hp] at h
      | panic k => simp [hp] at h
      | ok po =>
        simp only [hp] at h
        exact hjp po (by rw [decodeTrailer_reserve _ _ _ hp]; simp) h

/-- C07 (second sentence) for the chunk decoder on the repaired tree: whatever chunk sizes the peer
    declares, every reservation made during a `decode` call asks for at most the bytes presented -/
theorem C07_chunk_reserve_bounded (ov : Bool) (t : Tree) (hrep : t.repaired = true) (c : ChunkState) (raw : Bytes)
    (o : ParseOut ChunkState) (h : ChunkState.decode ov t c raw = .ok o) :
    ∀ r ∈ o.reserves, r.additional ≤ raw.length :=
  chunk_loop_reserve ov t hrep raw raw.length (Nat.le_refl _) _ c 0 [] o (by simp) h

/-- C07 (second sentence) for response parsing on the repaired tree (fixed-length and chunked
    bodies): every reservation made during a `parse` call asks for at most the bytes presented -/
theorem C07_response_reserve_bounded (cfg : RespCfg) (hrep : cfg.tree.repaired = true) (s : RespState) (raw : Bytes)
    (o : ParseOut RespState) (h : Response.parse cfg s raw = .ok o) :
    ∀ r ∈ o.reserves, r.additional ≤ raw.length := by
  unfold Response.parse at h
  suffices H : ∀ (fuel : Nat) (s : RespState) (tc : Nat) (rs : List Reserve) (o : ParseOut RespState),
      (∀ r ∈ rs, r.additional ≤ raw.length) → Response.parseLoop cfg fuel s raw tc rs = .ok o →
      ∀ r ∈ o.reserves, r.additional ≤ raw.length from H 4 s 0 [] o (by simp) h
  intro fuel
  induction fuel with
  | zero =>
    intro s tc rs o hrs h
    simp [Response.parseLoop] at h; subst h; exact hrs
  | succ fuel ih =>
    intro s tc rs o hrs h
    unfold Response.parseLoop at h
    simp only at h
    have hlen : (raw.drop tc).length ≤ raw.length := by simp
    have happ : ∀ X : List Reserve, (∀ r ∈ X, r.additional ≤ raw.length) → ∀ r ∈ rs ++ X, r.additional ≤ raw.length := by
      intro X hb r hr; simp only [List.mem_append] at hr
      rcases hr with hr | hr
      · exact hrs r hr
      · exact hb r hr
    cases hph : s.phase with
    | chunkedBody c =>
      simp only [hph, bind, Outcome.bind] at h
      cases hp : ChunkState.decode cfg.ov cfg.tree c (raw.drop tc) with
      | err x => simp [hp] at h
      | panic k => simp [hp] at h
      | ok r0 =>
        simp only [hp] at h
        have hb := C07_chunk_reserve_bounded cfg.ov cfg.tree hrep c _ r0 hp
        have hb' : ∀ r ∈ r0.reserves, r.additional ≤ raw.length := fun r hr => Nat.le_trans (hb r hr) hlen
        cases hst : r0.status with
        | complete =>
          simp only [hst] at h
          cases h; exact happ _ hb'
        | incomplete =>
          simp only [hst] at h
          cases h; exact happ _ hb'
    | fixedBody n =>
      simp only [hph, bind, Outcome.bind] at h
      split at h
      · simp at h
      · split at h
        · cases h; exact happ _ (by simp)
        · cases h; exact happ _ (by simp)
    | headers =>
      simp only [hph, bind, Outcome.bind, hrep, if_true] at h
      have hsl := strip_length_le (raw.drop tc)
      cases hp : (liftH Cat.Headers (Headers.parse cfg.hl s.headers (stripDanglingCr (raw.drop tc))) : Out _) with
      | err e => simp [hp] at h
      | panic k => simp [hp] at h
      | ok r0 =>
        obtain ⟨hs, st, c0⟩ := r0
        simp only [hp] at h
        cases st with
        | incomplete => simp only at h; cases h; exact happ _ (by simp)
        | complete =>
          simp only at h
          cases hv : headerValue hs kContentLength with
          | none =>
            simp only [hv] at h
            split at h
            · exact ih _ _ _ _ (happ _ (by simp)) h
            · cases h; exact happ _ (by simp)
          | some v =>
            simp only [hv] at h
            cases hn : parseNumber cfg.tree 10 v with
            | none => simp [hn] at h
            | some cl =>
              simp only [hn] at h
              cases hr : (vecReserve "response.body" s.body.length (min cl ((stripDanglingCr (raw.drop tc)).length - c0)) : Out Reserve) with
              | err x => simp only [hr] at h; cases h
              | panic k => simp only [hr] at h; cases h
              | ok r =>
                simp only [hr] at h
                refine ih _ _ _ _ (happ _ ?_) h
                intro r' hr'
                simp at hr'; subst hr'
                rw [vecReserve_additional hr]
                simp at hlen hsl ⊢; omega
    | statusLine =>
      simp only [hph, bind, Outcome.bind] at h
      cases hf : findCrlf (raw.drop tc) with
      | none => simp only [hf] at h; cases h; exact happ _ (by simp)
      | some e =>
        simp only [hf] at h
        split at h
        · simp at h
        · cases hsl : parseStatusLine cfg.tree ((raw.drop tc).take e) with
          | error c => simp [hsl] at h
          | ok cr =>
            obtain ⟨code, reason⟩ := cr
            simp only [hsl] at h
            exact ih _ _ _ _ (happ _ (by simp)) h
