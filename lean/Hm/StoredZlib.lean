import Hm.StoredBlocks

/-! C13: the zlib wrapper around stored blocks (what `deflate` means in RFC 7230, level 0) -/

theorem alignRead_aligned (inp : Inp) (m : Nat) : alignRead inp (8 * m) = .ok ((), 8 * m) := by
  unfold alignRead
  simp only [R.bind, getPos]
  rw [show (8 - 8 * m % 8) % 8 = 0 by omega]
  simp [readBits, R.pure]

/-- C13 (zlib, stored blocks, bodies of any size): a zlib stream `78 01`, one stored block per piece,
    then four bytes spelling (big-endian) the Adler-32 of the body, decodes to the body -/
theorem zlibR_zlibStored (ds : List Bytes) (hne : ds ≠ []) (hl : ∀ d ∈ ds, d.length ≤ 65535)
    (ad : Bytes) (had : ad.length = 4)
    (hsum : ad.foldl (fun acc b => acc * 256 + b.toNat) 0 = adler32 ds.flatten.toArray) :
    zlibR (8 * ([0x78, 0x01] ++ storedEnc ds ++ ad : Bytes).toArray.size) (inpOfBytes ([0x78, 0x01] ++ storedEnc ds ++ ad : Bytes).toArray) 0
      = .ok (ds.flatten.toArray, 8 * ([0x78, 0x01] ++ storedEnc ds ++ ad : Bytes).length) := by
  generalize harr : ([0x78, 0x01] ++ storedEnc ds ++ ad : Bytes).toArray = arr
  have hlist : arr.toList = [0x78, 0x01] ++ storedEnc ds ++ ad := by rw [← harr]
  have hsize : arr.size = 2 + (storedEnc ds).length + 4 := by rw [← harr]; simp [had]; omega
  have hz : zlibR (8 * arr.size) (inpOfBytes arr) 0 = .ok (ds.flatten.toArray, 8 * (2 + (storedEnc ds).length + 4)) := by
    unfold zlibR
    have hb0 := readByte_eq arr 0 (by omega)
    have hb1 := readByte_eq arr 1 (by omega)
    have ha0 : arr[0]'(by omega) = 0x78 := by subst harr; simp
    have ha1 : arr[1]'(by omega) = 0x01 := by subst harr; simp
    simp only [Nat.mul_zero, Nat.mul_one, Nat.zero_add] at hb0 hb1
    simp only [R.bind, hb0, hb1, ha0, ha1]
    have hchk : ¬ ((UInt8.toNat 0x78 * 256 + UInt8.toNat 0x01) % 31 ≠ 0 ∨ UInt8.toNat 0x01 &&& 32 ≠ 0 ∨
        UInt8.toNat 0x78 &&& 15 ≠ 8 ∨ UInt8.toNat 0x78 / 16 > 7) := by decide
    rw [if_neg hchk]
    have hinf : inflateR (8 * arr.size) (inpOfBytes arr) (8 + 8) = .ok (ds.flatten.toArray, 8 * (2 + (storedEnc ds).length)) := by
      have := inflateBlocks_storedEnc arr (8 * arr.size + 1) ds hne hl 2 ad (8 * arr.size + 1) #[]
        (by have := storedEnc_length_ge ds; omega) (by rw [hlist]; simp)
      simpa [inflateR] using this
    simp only [R.bind, hinf, alignRead_aligned]
    have hrb := readBytes_eq arr 4 (2 + (storedEnc ds).length) (by omega)
    have hdrop : (arr.toList.drop (2 + (storedEnc ds).length)).take 4 = ad := by
      rw [hlist, show 2 + (storedEnc ds).length = ([0x78, 0x01] ++ storedEnc ds : Bytes).length by simp; omega,
        List.drop_left, ← had, List.take_length]
    rw [hdrop] at hrb
    simp only [R.bind, hrb, hsum, ne_eq, not_true_eq_false, if_false, R.pure]
  have hlen : ([0x78, 0x01] ++ storedEnc ds ++ ad : Bytes).length = 2 + (storedEnc ds).length + 4 := by
    simp [had]; omega
  rw [hz, hlen]

/-- C13 (zlib, stored blocks, bodies of any size), at the entry point `coding.rs` uses after repair F6 -/
theorem C13_zlib_stored_blocks (ds : List Bytes) (hne : ds ≠ []) (hl : ∀ d ∈ ds, d.length ≤ 65535)
    (ad : Bytes) (had : ad.length = 4)
    (hsum : ad.foldl (fun acc b => acc * 256 + b.toNat) 0 = adler32 ds.flatten.toArray) :
    zlibDecode ([0x78, 0x01] ++ storedEnc ds ++ ad) = some ds.flatten := by
  have h := zlibR_zlibStored ds hne hl ad had hsum
  unfold zlibDecode runR
  simp only []
  rw [h]
