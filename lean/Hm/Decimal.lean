import Hm.Common

/-! `usize::to_string` followed by the (repaired) numeric-field parser is the identity -/

def decStep (a : Nat) (b : UInt8) : Nat := a * 10 + (b.toNat - 48)
def isDig (b : UInt8) : Bool := 48 ≤ b && b ≤ 57

theorem digitVal_dig {b : UInt8} (h : isDig b = true) : digitVal 10 b = some (b.toNat - 48) := by
  unfold isDig at h
  simp only [Bool.and_eq_true, decide_eq_true_eq] at h
  have h1 := UInt8.le_iff_toNat_le.mp h.1
  have h2 := UInt8.le_iff_toNat_le.mp h.2
  simp at h1 h2
  unfold digitVal
  simp only [h.1, h.2, and_self, if_true]
  have : b.toNat - 48 < 10 := by omega
  simp [this]

theorem foldl_decStep_mono (ds : Bytes) (a : Nat) : a ≤ ds.foldl decStep a := by
  induction ds generalizing a with
  | nil => simp
  | cons d ds ih =>
    simp only [List.foldl_cons]
    exact Nat.le_trans (by unfold decStep; omega) (ih _)

theorem accDigits_digits (max : Nat) (ds : Bytes) (hd : ∀ b ∈ ds, isDig b = true) (a : Nat)
    (hmax : ds.foldl decStep a ≤ max) : accDigits 10 max a ds = some (ds.foldl decStep a) := by
  induction ds generalizing a with
  | nil => simp [accDigits]
  | cons d ds ih =>
    unfold accDigits
    rw [digitVal_dig (hd d (by simp))]
    simp only [List.foldl_cons] at hmax ⊢
    have hle : decStep a d ≤ max := Nat.le_trans (foldl_decStep_mono ds _) hmax
    have : ¬ a * 10 + (d.toNat - 48) > max := by unfold decStep at hle; omega
    simp only [this, if_false]
    exact ih (fun b hb => hd b (by simp [hb])) _ hmax

def digitByte (k : Nat) : UInt8 := 48 + k.toUInt8

theorem digitByte_spec {k : Nat} (hk : k < 10) : isDig (digitByte k) = true ∧ (digitByte k).toNat - 48 = k := by
  have : ∀ k < 10, isDig (digitByte k) = true ∧ (digitByte k).toNat - 48 = k := by decide
  exact this k hk

/-- what `natToDecAux` prepends: a non-empty digit string whose value is `n` -/
theorem natToDecAux_spec (fuel n : Nat) (acc : Bytes) (hf : n < fuel) :
    ∃ pre, natToDecAux fuel n acc = pre ++ acc ∧ pre ≠ [] ∧ (∀ b ∈ pre, isDig b = true) ∧
      ∀ a, pre.foldl decStep a = a * 10 ^ pre.length + n := by
  induction fuel generalizing n acc with
  | zero => omega
  | succ fuel ih =>
    unfold natToDecAux
    have hd := digitByte_spec (Nat.mod_lt n (by omega : 10 > 0))
    have hbyte : (48 + (n % 10).toUInt8 : UInt8) = digitByte (n % 10) := rfl
    simp only [hbyte]
    by_cases h0 : n / 10 = 0
    · simp only [h0, if_true]
      refine ⟨[digitByte (n % 10)], by simp, by simp, ?_, ?_⟩
      · intro b hb; simp at hb; subst hb; exact hd.1
      · intro a
        simp only [List.foldl_cons, List.foldl_nil, decStep, hd.2, List.length_singleton, Nat.pow_one]
        omega
    · simp only [h0, if_false]
      obtain ⟨pre, h1, h2, h3, h4⟩ := ih (n / 10) (digitByte (n % 10) :: acc) (by omega)
      refine ⟨pre ++ [digitByte (n % 10)], by simp [h1], by simp, ?_, ?_⟩
      · intro b hb
        simp only [List.mem_append, List.mem_singleton] at hb
        rcases hb with hb | rfl
        · exact h3 b hb
        · exact hd.1
      · intro a
        simp only [List.foldl_append, List.foldl_cons, List.foldl_nil, h4, decStep, hd.2,
          List.length_append, List.length_singleton, Nat.pow_succ]
        have := Nat.div_add_mod n 10
        rw [Nat.add_mul, Nat.mul_assoc]
        omega

theorem isDig_ne_plus {b : UInt8} (h : isDig b = true) : b ≠ PLUS ∧ b ≠ 45 := by
  unfold isDig at h
  simp only [Bool.and_eq_true, decide_eq_true_eq] at h
  have h1 := UInt8.le_iff_toNat_le.mp h.1
  simp at h1
  constructor <;> (intro hc; subst hc; simp [PLUS] at h1)

/-- printing a number and parsing it back (both parsers: Rust's own and the repaired one) -/
theorem parse_natToDec (t : Tree) (n max : Nat) (hn : n ≤ max) :
    (if t.repaired && (natToDec n).head? = some PLUS then none else rustParseUnsigned 10 max (natToDec n)) = some n := by
  obtain ⟨pre, h1, h2, h3, h4⟩ := natToDecAux_spec (n + 1) n [] (by omega)
  have hnd : natToDec n = pre := by unfold natToDec; simpa using h1
  rw [hnd]
  have hval : pre.foldl decStep 0 = n := by simpa using h4 0
  cases hp : pre with
  | nil => exact absurd hp h2
  | cons b rest =>
    have hb : isDig b = true := h3 b (by simp [hp])
    have hne := isDig_ne_plus hb
    have hacc : accDigits 10 max 0 (b :: rest) = some n := by
      have := accDigits_digits max pre h3 0 (by rw [hval]; exact hn)
      rw [hval, hp] at this; exact this
    simp only [List.head?_cons, Option.some.injEq, hne.1, decide_false, Bool.and_false, Bool.false_eq_true, if_false]
    unfold rustParseUnsigned
    cases rest with
    | nil => simp only [hne.1, hne.2, or_self, if_false]; exact hacc
    | cons c rest' => simp only [hne.1, if_false]; exact hacc

theorem parseNumber_natToDec (t : Tree) (n : Nat) (hn : n ≤ usizeMax) : parseNumber t 10 (natToDec n) = some n := by
  unfold parseNumber; exact parse_natToDec t n usizeMax hn

theorem natToDec_digits (n : Nat) : (∀ b ∈ natToDec n, isDig b = true) ∧ natToDec n ≠ [] := by
  obtain ⟨pre, h1, h2, h3, _⟩ := natToDecAux_spec (n + 1) n [] (by omega)
  have hnd : natToDec n = pre := by unfold natToDec; simpa using h1
  rw [hnd]; exact ⟨h3, h2⟩
