import Hm.Utf8Cut

/-! UTF-8 validity does not depend on *which* ASCII bytes sit at the ASCII positions: two byte strings of the same
    length that agree wherever either has a byte ≥ 0x80 are both valid or both invalid.  Corollary: changing the
    ASCII letter case of a byte string never changes its UTF-8 validity (C18 at byte-stream level needs this for
    `from_utf8` on header lines). -/

def ARel (x y : UInt8) : Prop := (x < 128 ∧ y < 128) ∨ x = y

inductive AsciiRel : Bytes → Bytes → Prop
  | nil : AsciiRel [] []
  | cons {x y : UInt8} {s t : Bytes} : ARel x y → AsciiRel s t → AsciiRel (x :: s) (y :: t)

theorem ARel.symm {x y : UInt8} (h : ARel x y) : ARel y x := by
  rcases h with ⟨a, b⟩ | h
  · exact Or.inl ⟨b, a⟩
  · exact Or.inr h.symm

theorem AsciiRel.symm {s t : Bytes} (h : AsciiRel s t) : AsciiRel t s := by
  induction h with
  | nil => exact .nil
  | cons hxy _ ih => exact .cons hxy.symm ih

theorem AsciiRel.split_append : ∀ (a b t : Bytes), AsciiRel (a ++ b) t →
    ∃ t1 t2, t = t1 ++ t2 ∧ AsciiRel a t1 ∧ AsciiRel b t2 := by
  intro a
  induction a with
  | nil => intro b t h; exact ⟨[], t, rfl, .nil, h⟩
  | cons x a ih =>
    intro b t h
    cases h with
    | cons hxy hr =>
      obtain ⟨t1, t2, rfl, h1, h2⟩ := ih b _ hr
      exact ⟨_ :: t1, t2, rfl, .cons hxy h1, h2⟩

theorem AsciiRel.append {a b t1 t2 : Bytes} (h1 : AsciiRel a t1) (h2 : AsciiRel b t2) : AsciiRel (a ++ b) (t1 ++ t2) := by
  induction h1 with
  | nil => exact h2
  | cons hxy _ ih => exact .cons hxy ih

theorem AsciiRel.high : ∀ (s t : Bytes), (∀ b ∈ s, 128 ≤ b) → AsciiRel s t → t = s := by
  intro s t hs h
  induction h with
  | nil => rfl
  | @cons x y s t hxy _ ih =>
    have hx : 128 ≤ x := hs x (by simp)
    have : y = x := by
      rcases hxy with ⟨a, _⟩ | h
      · exact absurd hx (by simpa [UInt8.not_le] using a)
      · exact h.symm
    rw [this, ih (fun b hb => hs b (by simp [hb]))]

theorem high_c0 (x : UInt8) : 128 ≤ (x &&& 0x1f ||| 0xc0) := by
  have : ∀ n, n < 256 → 128 ≤ (n.toUInt8 &&& 0x1f ||| 0xc0) := by decide +kernel
  simpa using this x.toNat x.toNat_lt
theorem high_80 (x : UInt8) : 128 ≤ (x &&& 0x3f ||| 0x80) := by
  have : ∀ n, n < 256 → 128 ≤ (n.toUInt8 &&& 0x3f ||| 0x80) := by decide +kernel
  simpa using this x.toNat x.toNat_lt
theorem high_e0 (x : UInt8) : 128 ≤ (x &&& 0x0f ||| 0xe0) := by
  have : ∀ n, n < 256 → 128 ≤ (n.toUInt8 &&& 0x0f ||| 0xe0) := by decide +kernel
  simpa using this x.toNat x.toNat_lt
theorem high_f0 (x : UInt8) : 128 ≤ (x &&& 0x07 ||| 0xf0) := by
  have : ∀ n, n < 256 → 128 ≤ (n.toUInt8 &&& 0x07 ||| 0xf0) := by decide +kernel
  simpa using this x.toNat x.toNat_lt

/-- one encoded character is either a single ASCII byte or consists of bytes ≥ 0x80 only -/
theorem enc_ascii_or_high (c : Char) :
    (∃ b, b < 128 ∧ String.utf8EncodeChar c = [b]) ∨ (∀ b ∈ String.utf8EncodeChar c, 128 ≤ b) := by
  have hpos := Char.utf8Size_pos c
  have hle := Char.utf8Size_le_four c
  have hcases : c.utf8Size = 1 ∨ c.utf8Size = 2 ∨ c.utf8Size = 3 ∨ c.utf8Size = 4 := by omega
  rcases hcases with h | h | h | h
  · left
    refine ⟨c.val.toUInt8, ?_, String.utf8EncodeChar_eq_singleton h⟩
    have h0 : c.val.toNat ≤ 127 := by
      simpa [Char.utf8Size_eq_one_iff, UInt32.le_iff_toNat_le] using h
    apply UInt8.lt_iff_toNat_lt.mpr
    rw [UInt32.toNat_toUInt8]
    have : c.val.toNat % 256 = c.val.toNat := Nat.mod_eq_of_lt (by omega)
    simp only [this]; show c.val.toNat < 128; omega
  · right
    rw [String.utf8EncodeChar_eq_cons_cons h]
    intro b hb
    simp only [List.mem_cons, List.not_mem_nil, or_false] at hb
    rcases hb with rfl | rfl
    · exact high_c0 _
    · exact high_80 _
  · right
    rw [String.utf8EncodeChar_eq_cons_cons_cons h]
    intro b hb
    simp only [List.mem_cons, List.not_mem_nil, or_false] at hb
    rcases hb with rfl | rfl | rfl
    · exact high_e0 _
    · exact high_80 _
    · exact high_80 _
  · right
    rw [String.utf8EncodeChar_eq_cons_cons_cons_cons h]
    intro b hb
    simp only [List.mem_cons, List.not_mem_nil, or_false] at hb
    rcases hb with rfl | rfl | rfl | rfl
    · exact high_f0 _
    · exact high_80 _
    · exact high_80 _
    · exact high_80 _

theorem encL_asciiRel (cs : List Char) : ∀ (t : Bytes), AsciiRel (encL cs) t → ∃ cs', encL cs' = t := by
  induction cs with
  | nil =>
    intro t h
    simp only [encL, List.flatMap_nil] at h
    cases h
    exact ⟨[], by simp [encL]⟩
  | cons c cs ih =>
    intro t h
    have hE : encL (c :: cs) = String.utf8EncodeChar c ++ encL cs := by simp [encL]
    rw [hE] at h
    obtain ⟨t1, t2, rfl, h1, h2⟩ := AsciiRel.split_append _ _ _ h
    obtain ⟨cs2, hcs2⟩ := ih t2 h2
    rcases enc_ascii_or_high c with ⟨b, hb, hc⟩ | hhigh
    · rw [hc] at h1
      cases h1 with
      | cons hxy hr =>
        cases hr
        rename_i y
        have hy : y < 128 := by
          rcases hxy with ⟨_, a⟩ | h
          · exact a
          · rw [← h]; exact hb
        obtain ⟨c', hsz, hc'⟩ := ascii_char y hy
        refine ⟨c' :: cs2, ?_⟩
        have : String.utf8EncodeChar c' = [y] := by
          rw [String.utf8EncodeChar_eq_singleton hsz]
          exact congrArg (fun z => [z]) hc'
        simp only [encL, List.flatMap_cons] at hcs2 ⊢
        rw [this, hcs2]
    · have := AsciiRel.high _ _ hhigh h1
      refine ⟨c :: cs2, ?_⟩
      simp only [encL, List.flatMap_cons] at hcs2 ⊢
      rw [this, hcs2]

theorem validUtf8_asciiRel {s t : Bytes} (h : AsciiRel s t) : validUtf8 s = validUtf8 t := by
  have key : ∀ {a b : Bytes}, AsciiRel a b → validUtf8 a = true → validUtf8 b = true := by
    intro a b hab ha
    unfold validUtf8 at ha ⊢
    rw [ByteArray.validateUTF8_eq_true_iff] at ha ⊢
    obtain ⟨cs, hcs⟩ := (isValid_iff_encL a).mp ha
    subst hcs
    exact (isValid_iff_encL b).mpr (encL_asciiRel cs b hab)
  cases hs : validUtf8 s with
  | true => exact (key h hs).symm
  | false =>
    cases ht : validUtf8 t with
    | false => rfl
    | true => rw [key h.symm ht] at hs; exact hs.symm

theorem aRel_lower (b : UInt8) : ARel b (asciiLower b) := by
  have : ∀ n, n < 256 → ((n.toUInt8 < 128 ∧ asciiLower n.toUInt8 < 128) ∨ n.toUInt8 = asciiLower n.toUInt8) := by
    decide +kernel
  simpa [ARel] using this b.toNat b.toNat_lt

theorem asciiRel_lower (s : Bytes) : AsciiRel s (lower s) := by
  induction s with
  | nil => exact .nil
  | cons b s ih => exact .cons (aRel_lower b) ih

/-- changing ASCII letter case never changes UTF-8 validity -/
theorem validUtf8_lower (s : Bytes) : validUtf8 (lower s) = validUtf8 s :=
  (validUtf8_asciiRel (asciiRel_lower s)).symm
