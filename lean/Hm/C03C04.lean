import Hm.C09
import Hm.HeaderAlgebra

/-! C03 / C04: the prefix clause, the framing order, and C18 at framing level -/

/-- C03 (prefix clause), repaired tree: a request prefix that is rejected has no acceptable extension;
    equivalently, a proper prefix of an acceptable request is never rejected -/
theorem C03_prefix_never_rejected (u : UriImpl) (cfg : ReqCfg) {s : Bytes} {e : Fail}
    (h : (requestSys u cfg).parse (Request.new u) s = .fail e) (d : Bytes) :
    ∃ e', (requestSys u cfg).parse (Request.new u) (s ++ d) = .fail e' :=
  Sys.parse_append_fail (requestSys_lawful cfg) (reqInv_new cfg) h d

theorem C03_accepted_prefix_not_rejected (u : UriImpl) (cfg : ReqCfg) {s d : Bytes} {st : ReqState u} {c : Nat}
    (h : (requestSys u cfg).parse (Request.new u) (s ++ d) = .ok .complete st c) :
    ∀ e, (requestSys u cfg).parse (Request.new u) s ≠ .fail e := by
  intro e he
  obtain ⟨e', he'⟩ := C03_prefix_never_rejected u cfg he d
  rw [h] at he'; simp at he'

/-- C04 (prefix clause) -/
theorem C04_prefix_never_rejected (hl : Option Nat) {s : Bytes} {e : Fail}
    (h : (respSys hl).parse Response.new s = .fail e) (d : Bytes) :
    ∃ e', (respSys hl).parse Response.new (s ++ d) = .fail e' :=
  Sys.parse_append_fail (respSys_lawful hl) respInv_new h d

/-- C04 (framing order): Content-Length first … -/
theorem C04_framing_content_length {s : RespState} {hs : List Header} {c : Nat} {v : Bytes} {cl : Nat}
    (hv : headerValue hs kContentLength = some v) (hn : parseNumber ⟨true⟩ 10 v = some cl) :
    rframing s hs c = .ok .completePart { s with headers := hs, phase := .fixedBody cl } c := by
  simp [rframing, hv, hn]

/-- … a Content-Length that is not `1*DIGIT` within range rejects the message, whatever else is there … -/
theorem C04_framing_bad_content_length {s : RespState} {hs : List Header} {c : Nat} {v : Bytes}
    (hv : headerValue hs kContentLength = some v) (hn : parseNumber ⟨true⟩ 10 v = none) :
    rframing s hs c = .fail (.err .InvalidContentLength) := by
  simp [rframing, hv, hn]

/-- … otherwise a chunked body if Transfer-Encoding lists `chunked` … -/
theorem C04_framing_chunked {s : RespState} {hs : List Header} {c : Nat}
    (hv : headerValue hs kContentLength = none) (ht : hasHeaderToken hs kTransferEncoding kChunked = true) :
    rframing s hs c = .ok .completePart { s with headers := hs, phase := .chunkedBody ChunkState.new } c := by
  simp [rframing, hv, ht]

/-- … otherwise no body: the message ends with its header block -/
theorem C04_framing_none {s : RespState} {hs : List Header} {c : Nat}
    (hv : headerValue hs kContentLength = none) (ht : hasHeaderToken hs kTransferEncoding kChunked = false) :
    rframing s hs c = .ok .completeWhole { s with headers := hs } c := by
  simp [rframing, hv, ht]

/-! ### C18 at framing level: header lists that differ only in the letter case of names -/

/-- same length, names equal up to ASCII case, values equal -/
def HdrEquiv : List Header → List Header → Prop
  | [], [] => True
  | a :: as, b :: bs => nameEq a.name b.name = true ∧ a.value = b.value ∧ HdrEquiv as bs
  | _, _ => False

theorem headerMultiValue_hdrEquiv {hs hs' : List Header} (h : HdrEquiv hs hs') (n : Bytes) :
    headerMultiValue hs n = headerMultiValue hs' n := by
  induction hs generalizing hs' with
  | nil => cases hs' <;> simp_all [HdrEquiv]
  | cons a as ih =>
    cases hs' with
    | nil => simp [HdrEquiv] at h
    | cons b bs =>
      obtain ⟨hn, hv, hr⟩ := h
      have hab : nameEq a.name n = nameEq b.name n := by
        cases h1 : nameEq a.name n with
        | true => exact (nameEq_trans (nameEq_symm hn) h1).symm
        | false =>
          cases h2 : nameEq b.name n with
          | false => rfl
          | true => rw [nameEq_trans hn h2] at h1; exact h1.symm
      have := ih hr
      unfold headerMultiValue at this ⊢
      simp only [List.filter_cons, hab]
      split <;> simp [hv, this]

/-- C18: the response framing decision (which framing, which declared length) is the same for header
    lists that differ only in the letter case of header names -/
theorem C18_response_framing_case {s : RespState} {hs hs' : List Header} (h : HdrEquiv hs hs') (c : Nat) :
    (match rframing s hs c, rframing s hs' c with
     | .fail e, .fail e' => e = e'
     | .ok i st n, .ok i' st' n' => i = i' ∧ n = n' ∧ st.body = st'.body ∧
         (match st.phase, st'.phase with
          | .fixedBody a, .fixedBody b => a = b
          | .chunkedBody _, .chunkedBody _ => True
          | .headers, .headers => True
          | .statusLine, .statusLine => True
          | _, _ => False)
     | _, _ => False) := by
  have hv : ∀ n, headerValue hs n = headerValue hs' n := by
    intro n; unfold headerValue; rw [headerMultiValue_hdrEquiv h n]
  have ht : hasHeaderToken hs kTransferEncoding kChunked = hasHeaderToken hs' kTransferEncoding kChunked := by
    unfold hasHeaderToken headerTokens; rw [headerMultiValue_hdrEquiv h]
  unfold rframing
  rw [← hv kContentLength, ← ht]
  cases headerValue hs kContentLength with
  | some v =>
    simp only
    cases parseNumber ⟨true⟩ 10 v with
    | none => simp
    | some cl => simp
  | none =>
    simp only
    cases hh : hasHeaderToken hs kTransferEncoding kChunked with
    | true => simp
    | false => cases hp : s.phase <;> simp [hp]
