import Hm.C16

/-! C16: charset selection -/

/-- label facts, evaluated by the kernel over the generated 228-row table -/
theorem forLabel_latin1 : forLabel kLatin1 = some "windows-1252" := by decide +kernel

/-- `utf-8`, `UTF-8`, ` Utf8 ` -/
theorem forLabel_utf8 : forLabel [117, 116, 102, 45, 56] = some "UTF-8" ∧ forLabel [85, 84, 70, 45, 56] = some "UTF-8" ∧
    forLabel [32, 85, 116, 102, 56, 32] = some "UTF-8" := by decide +kernel

/-- an unknown label, an empty label, a label with inner white space -/
theorem forLabel_unknown : forLabel [120, 45, 110, 111, 112, 101] = none ∧ forLabel [] = none ∧
    forLabel [117, 116, 102, 32, 56] = none := by decide +kernel

theorem charsetOf_nil : charsetOf [] = kLatin1 := by decide +kernel

/-- C16 (default charset): a `text/…` Content-Type without parameters is decoded as the label
    `iso-8859-1` says (windows-1252): every body, one character per byte -/
theorem C16_default_charset {hs : List Header} {ct ty rest : Bytes} (body : Bytes)
    (hct : headerValue hs kContentType = some ct) (hsemi : findByte SEMI ct = none)
    (hsp : splitAtByte 47 ct = some (ty, rest)) (hty : eqIgnoreCase ty kText = true) :
    decodeBodyAsText hs body = .some (body.flatMap fun b => utf8OfCodePoint (w1252CodePoint b)) := by
  unfold decodeBodyAsText
  simp only [hct, hsemi, hsp, hty, Bool.not_true, Bool.false_eq_true, if_false, charsetOf_nil, forLabel_latin1]
  exact C16_latin1_total body

/-- C16 (charset decides, unknown ⇒ nothing): with a `text` type, the result is determined by the
    label that `charsetOf` extracts from the parameters — nothing if `for_label` does not know it,
    else the decoding under that encoding -/
theorem C16_charset_decides {hs : List Header} {ct ty rest : Bytes} {d : Nat} (body : Bytes)
    (hct : headerValue hs kContentType = some ct) (hsemi : findByte SEMI ct = some d)
    (hsp : splitAtByte 47 (ct.take d) = some (ty, rest)) (hty : eqIgnoreCase ty kText = true) :
    decodeBodyAsText hs body =
      (match forLabel (charsetOf (ct.drop (d + 1))) with
       | none => .none
       | some enc => decodeWith enc body) := by
  unfold decodeBodyAsText
  simp only [hct, hsemi, hsp, hty, Bool.not_true, Bool.false_eq_true, if_false]
  cases forLabel (charsetOf (ct.drop (d + 1))) <;> rfl

/-- `text/plain; charset=UTF-8` and `text/plain;CHARSET=utf-8` select UTF-8 (kernel-evaluated instances
    of the parameter scan: name matched ignoring case, value taken verbatim) -/
theorem charsetOf_examples :
    charsetOf [32, 99, 104, 97, 114, 115, 101, 116, 61, 85, 84, 70, 45, 56] = [85, 84, 70, 45, 56] ∧
    charsetOf [67, 72, 65, 82, 83, 69, 84, 61, 117, 116, 102, 45, 56] = [117, 116, 102, 45, 56] := by decide +kernel
