import Hm.RespLaws
import Hm.C05Conv

/-! C04 (whole message, soundness): what a complete response parse implies about the bytes consumed -/

theorem respSys_step (hl : Option Nat) : (respSys hl).step = respStep hl := rfl

theorem strip_decomp (b : Bytes) : ∃ t, b = stripDanglingCr b ++ t := by
  unfold stripDanglingCr
  split
  · rename_i h; exact ⟨[CR], exists_snoc_of_last h⟩
  · exact ⟨[], by simp⟩

/-- a header block that is complete without the dangling CR is complete with it -/
theorem Headers.parse_complete_unstrip {hl : Option Nat} {hs0 hs : List Header} {b : Bytes} {c : Nat}
    (h : Headers.parse hl hs0 (stripDanglingCr b) = .ok (hs, .complete, c)) :
    Headers.parse hl hs0 b = .ok (hs, .complete, c) := by
  obtain ⟨t, ht⟩ := strip_decomp b
  have := (Headers.parse_append_complete h t).1
  rw [← ht] at this; exact this

/-- C04 (whole message, soundness): if the parser reports a complete response after `n` bytes of `s`,
    then `s` starts with a status line `HTTP/1.1 SP code SP reason` (as `parseStatusLine` accepts it,
    valid UTF-8) ended by the first CRLF, followed by a header block the header parser accepts in full,
    and the body is framed — in this order of precedence — by Content-Length (exactly that many bytes,
    nothing more consumed), else by `chunked` (the consumed bytes form a well-formed chunked body in
    the sense of C05, the body is its payload), else it is empty and nothing more is consumed -/
theorem C04_accept_sound (hl : Option Nat) {s : Bytes} {st : RespState} {n : Nat}
    (h : (respSys hl).parse Response.new s = .ok .complete st n) :
    ∃ e c hs, findCrlf s = some e ∧ validUtf8 (s.take e) = true ∧
      parseStatusLine ⟨true⟩ (s.take e) = .ok (st.statusCode, st.reasonPhrase) ∧
      Headers.parse hl [] (s.drop (e + 2)) = .ok (hs, .complete, c) ∧
      ((∃ v cl, headerValue hs kContentLength = some v ∧ parseNumber ⟨true⟩ 10 v = some cl ∧
          st.headers = hs ∧ st.body = ((s.drop (e + 2)).drop c).take cl ∧ st.body.length = cl ∧ n = e + 2 + c + cl) ∨
       (headerValue hs kContentLength = none ∧ hasHeaderToken hs kTransferEncoding kChunked = true ∧
          ∃ cst k, st.body = cst.buffer ∧ n = e + 2 + c + k ∧ k ≤ ((s.drop (e + 2)).drop c).length ∧
            Sound ChunkState.new (((s.drop (e + 2)).drop c).take k) cst) ∨
       (headerValue hs kContentLength = none ∧ hasHeaderToken hs kTransferEncoding kChunked = false ∧
          st.headers = hs ∧ st.body = [] ∧ n = e + 2 + c)) := by
  unfold Sys.parse at h
  have hμ : (respSys hl).μ Response.new s.length = 3 := rfl
  rw [hμ] at h
  -- the status line
  unfold Sys.loop at h
  rw [respSys_step hl] at h
  have hs1 : respStep hl Response.new s = rstatusStep Response.new s := rfl
  rw [hs1] at h
  unfold rstatusStep at h
  cases hf : findCrlf s with
  | none => simp [hf] at h
  | some e =>
    simp only [hf] at h
    by_cases hv : validUtf8 (s.take e) = true
    · simp only [hv, Bool.not_true, Bool.false_eq_true, if_false] at h
      cases hp : parseStatusLine ⟨true⟩ (s.take e) with
      | error c => simp [hp] at h
      | ok cr =>
        obtain ⟨code, reason⟩ := cr
        simp only [hp] at h
        -- the header block
        unfold Sys.loop at h
        rw [respSys_step hl] at h
        have hs2 : ∀ x, respStep hl { Response.new with phase := .headers, statusCode := code, reasonPhrase := reason } x
            = rhdrStep hl { Response.new with phase := .headers, statusCode := code, reasonPhrase := reason } x := fun _ => rfl
        rw [hs2] at h
        unfold rhdrStep at h
        simp only [Response.new] at h
        cases hh0 : Headers.parse hl [] (stripDanglingCr (s.drop (e + 2))) with
        | error e2 => simp [hh0] at h
        | ok r =>
          obtain ⟨hs, hst, c⟩ := r
          cases hst with
          | incomplete => simp [hh0] at h
          | complete =>
            have hh := Headers.parse_complete_unstrip hh0
            simp only [hh0] at h
            unfold rframing at h
            cases hcl : headerValue hs kContentLength with
            | some v =>
              simp only [hcl] at h
              cases hn : parseNumber ⟨true⟩ 10 v with
              | none => simp [hn] at h
              | some cl =>
                simp only [hn] at h
                -- the declared-length body
                unfold Sys.loop at h
                rw [respSys_step hl] at h
                unfold respStep at h
                simp only at h
                unfold rfixedStep at h
                simp only [List.length_nil, Nat.sub_zero, List.nil_append, gt_iff_lt, Nat.not_lt_zero, if_false] at h
                by_cases hlen : ((s.drop (e + 2)).drop c).length ≥ cl
                · rw [if_pos hlen] at h
                  simp only [Option.some.injEq, PRes.ok.injEq, true_and] at h
                  obtain ⟨rfl, rfl⟩ := h
                  refine ⟨e, c, hs, rfl, hv, hp, hh, Or.inl ⟨v, cl, hcl, hn, rfl, rfl, ?_, by omega⟩⟩
                  simp only [List.length_take]; omega
                · rw [if_neg hlen] at h; simp at h
            | none =>
              simp only [hcl] at h
              by_cases hch : hasHeaderToken hs kTransferEncoding kChunked = true
              · rw [if_pos hch] at h
                -- the chunked body
                unfold Sys.loop at h
                rw [respSys_step hl] at h
                unfold respStep at h
                simp only at h
                unfold rchunkStep at h
                cases hcp : chunkSys.parse ChunkState.new ((s.drop (e + 2)).drop c) with
                | fail f => simp only [hcp] at h; simp at h
                | ok cstat cst k =>
                  cases cstat with
                  | incomplete => simp only [hcp] at h; simp at h
                  | complete =>
                    simp only [hcp, Option.some.injEq, PRes.ok.injEq, true_and] at h
                    obtain ⟨rfl, rfl⟩ := h
                    obtain ⟨hk, hsound, _⟩ := C05_complete_only_if_wellformed _ _ _ hcp
                    refine ⟨e, c, hs, rfl, hv, ?_, hh, Or.inr (Or.inl ⟨hcl, hch, cst, k, ?_, by omega, hk, hsound⟩)⟩
                    · simpa [dechunkRewrite] using hp
                    · simp [dechunkRewrite]
              · rw [if_neg hch] at h
                simp only [Option.some.injEq, PRes.ok.injEq, true_and] at h
                obtain ⟨rfl, rfl⟩ := h
                refine ⟨e, c, hs, rfl, hv, hp, hh, Or.inr (Or.inr ⟨hcl, by simpa using hch, rfl, rfl, by omega⟩)⟩
    · simp [hv] at h
