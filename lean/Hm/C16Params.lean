import Hm.C16Select

/-! C16: which charset parameter decides — for every parameter list.  The parameters are the `;`-separated
    pieces of what follows the media type; each is trimmed (Unicode white space, as `str::trim`); the **first** one
    of the form `name=value` whose name is `charset` in any letter case decides, whatever comes after it; without
    one the default label applies. -/

theorem splitOn_no_sep (sep : UInt8) (s : Bytes) (h : sep ∉ s) : splitOn sep s = [s] := by
  induction s with
  | nil => rfl
  | cons b rest ih =>
    have hb : ¬ b = sep := fun hc => h (by simp [hc])
    have hr : sep ∉ rest := fun hc => h (by simp [hc])
    unfold splitOn
    rw [if_neg hb, ih hr]

theorem splitOn_append_sep (sep : UInt8) (x J : Bytes) (h : sep ∉ x) : splitOn sep (x ++ sep :: J) = x :: splitOn sep J := by
  induction x with
  | nil =>
    simp only [List.nil_append]
    conv => lhs; unfold splitOn
    simp
  | cons b rest ih =>
    have hb : ¬ b = sep := fun hc => h (by simp [hc])
    have hr : sep ∉ rest := fun hc => h (by simp [hc])
    simp only [List.cons_append]
    conv => lhs; unfold splitOn
    rw [if_neg hb, ih hr]

theorem splitOn_joinWith (sep : UInt8) : ∀ (segs : List Bytes), segs ≠ [] → (∀ s ∈ segs, sep ∉ s) →
    splitOn sep (joinWith [sep] segs) = segs
  | [], h, _ => absurd rfl h
  | [x], _, hs => by simp only [joinWith]; exact splitOn_no_sep sep x (hs x (by simp))
  | x :: y :: rest, _, hs => by
    have ih := splitOn_joinWith sep (y :: rest) (by simp) (fun s h => hs s (by simp [h]))
    simp only [joinWith, List.append_assoc, List.singleton_append]
    rw [splitOn_append_sep sep x _ (hs x (by simp)), ih]

theorem find_first {α : Type} (p : α → Bool) (pre : List α) (x : α) (post : List α)
    (hpre : ∀ a ∈ pre, p a = false) (hx : p x = true) : (pre ++ x :: post).find? p = some x := by
  induction pre with
  | nil => simp [hx]
  | cons a rest ih =>
    simp only [List.cons_append, List.find?_cons, hpre a (by simp)]
    exact ih (fun b hb => hpre b (by simp [hb]))

/-- the parameter that decides: everything before it is either not of the form `name=value` or has another name -/
theorem C16_charset_first_param (pre : List Bytes) (p : Bytes) (post : List Bytes) (name value : Bytes)
    (hsemi : ∀ s ∈ pre ++ p :: post, SEMI ∉ s)
    (hpre : ∀ q ∈ pre, ∀ nv, splitAtByte 61 (rustTrim q) = some nv → eqIgnoreCase nv.1 kCharset = false)
    (hp : splitAtByte 61 (rustTrim p) = some (name, value)) (hname : eqIgnoreCase name kCharset = true) :
    charsetOf (joinWith [SEMI] (pre ++ p :: post)) = value := by
  unfold charsetOf
  rw [splitOn_joinWith SEMI _ (by simp) hsemi]
  simp only [List.map_append, List.map_cons, List.filterMap_append, List.filterMap_cons, hp]
  rw [find_first (fun nv => eqIgnoreCase nv.1 kCharset) _ (name, value) _ ?_ hname]
  intro nv hnv
  simp only [List.mem_filterMap, List.mem_map] at hnv
  obtain ⟨t, ⟨q, hq, rfl⟩, ht⟩ := hnv
  exact hpre q hq nv ht

/-- no parameter named charset: the default label -/
theorem C16_charset_absent (ps : List Bytes) (hne : ps ≠ []) (hsemi : ∀ s ∈ ps, SEMI ∉ s)
    (hall : ∀ q ∈ ps, ∀ nv, splitAtByte 61 (rustTrim q) = some nv → eqIgnoreCase nv.1 kCharset = false) :
    charsetOf (joinWith [SEMI] ps) = kLatin1 := by
  unfold charsetOf
  rw [splitOn_joinWith SEMI _ hne hsemi]
  have : ((ps.map rustTrim).filterMap (splitAtByte 61)).find? (fun nv => eqIgnoreCase nv.1 kCharset) = none := by
    rw [List.find?_eq_none]
    intro nv hnv
    simp only [List.mem_filterMap, List.mem_map] at hnv
    obtain ⟨t, ⟨q, hq, rfl⟩, ht⟩ := hnv
    simp [hall q hq nv ht]
  simp only [this]

/-- instance (kernel-evaluated premises): ` format=flowed; Charset=utf-8 ; q=1` selects `utf-8` — the charset parameter
    is neither first nor last, its name is capitalised, and there is white space around it -/
example : charsetOf (joinWith [SEMI] ([[32, 102, 111, 114, 109, 97, 116, 61, 102, 108, 111, 119, 101, 100]] ++
      [32, 67, 104, 97, 114, 115, 101, 116, 61, 117, 116, 102, 45, 56, 32] :: [[32, 113, 61, 49]])) = [117, 116, 102, 45, 56] :=
  C16_charset_first_param _ _ _ [67, 104, 97, 114, 115, 101, 116] _ (by decide) (by decide +kernel) (by decide +kernel) (by decide)
