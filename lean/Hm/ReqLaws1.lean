import Hm.ReqSys
import Hm.HeaderLaws2

variable {u : UriImpl}

/-- reachable-state invariant of the repaired request parser -/
def ReqInv (cfg : ReqCfg) (s : ReqState u) : Prop :=
  match s.phase with
  | .body n => s.body.length ≤ n ∧ early cfg.max s.totalBytes 0 = false
  | _ => s.body = []

/-! ### body phase -/

theorem bodyStep_le {cfg : ReqCfg} {s s' : ReqState u} {rem : Bytes} {n c : Nat} {i : Internal}
    (h : bodyStep cfg s rem n = .ok i s' c) : c ≤ rem.length := by
  unfold bodyStep at h
  split at h
  · simp at h
  · split at h
    · simp at h; omega
    · split at h
      · simp at h
      · simp at h; omega

theorem bodyStep_phase {cfg : ReqCfg} {s s' : ReqState u} {rem : Bytes} {n c : Nat} {i : Internal}
    (h : bodyStep cfg s rem n = .ok i s' c) : s'.phase = s.phase ∧ s'.totalBytes = s.totalBytes := by
  unfold bodyStep at h
  split at h
  · simp at h
  · split at h
    · simp at h; obtain ⟨_, rfl, _⟩ := h; simp
    · split at h
      · simp at h
      · simp at h; obtain ⟨_, rfl, _⟩ := h; simp

theorem bodyStep_p1 {cfg : ReqCfg} {s s' : ReqState u} {rem : Bytes} {n c : Nat} {i : Internal}
    (h : bodyStep cfg s rem n = .ok i s' c) (hi : i ≠ .incomplete) (d : Bytes) :
    bodyStep cfg s (rem ++ d) n = .ok i s' c := by
  unfold bodyStep at h ⊢
  split at h
  · simp at h
  · rename_i hg
    rw [if_neg hg]
    split at h
    · rename_i hlen
      have : (rem ++ d).length ≥ n - s.body.length := by simp; omega
      rw [if_pos this, List.take_append_of_le_length hlen]
      exact h
    · split at h
      · simp at h
      · simp at h; exact absurd h.1.symm hi

theorem bodyStep_p3 {cfg : ReqCfg} {s : ReqState u} {rem : Bytes} {n : Nat} {e : Fail}
    (hI : s.body.length ≤ n ∧ early cfg.max s.totalBytes 0 = false)
    (h : bodyStep cfg s rem n = .fail e) (d : Bytes) : ∃ e', bodyStep cfg s (rem ++ d) n = .fail e' := by
  unfold bodyStep at h
  split at h
  · omega
  · split at h
    · simp at h
    · split at h
      · rename_i he; simp [hI.2] at he
      · simp at h

theorem bodyStep_p2 {cfg : ReqCfg} {s s' : ReqState u} {rem : Bytes} {n c : Nat}
    (hI : s.body.length ≤ n)
    (h : bodyStep cfg s rem n = .ok .incomplete s' c) (d : Bytes) :
    bodyStep cfg s (rem ++ d) n = (bodyStep cfg s' (rem.drop c ++ d) n).shift c := by
  unfold bodyStep at h
  split at h
  · omega
  · split at h
    · simp at h
    · rename_i hg hlen
      split at h
      · simp at h
      · rename_i hearly
        simp only [Res.ok.injEq, true_and] at h
        obtain ⟨rfl, rfl⟩ := h
        simp only [List.drop_length, List.nil_append]
        unfold bodyStep
        have hg' : ¬ (s.body ++ rem).length > n := by simp; omega
        rw [if_neg hg, if_neg hg']
        by_cases hl : (rem ++ d).length ≥ n - s.body.length
        · have hl' : d.length ≥ n - (s.body ++ rem).length := by simp at hl ⊢; omega
          rw [if_pos hl, if_pos hl']
          have htake : (rem ++ d).take (n - s.body.length) = rem ++ d.take (n - (s.body ++ rem).length) := by
            rw [List.take_append]
            have h1 : rem.take (n - s.body.length) = rem := List.take_of_length_le (by omega)
            rw [h1]; congr 2; simp; omega
          have hc : n - s.body.length = rem.length + (n - (s.body ++ rem).length) := by simp; omega
          simp only [Res.shift, htake, List.append_assoc]
          rw [hc]
        · have hl' : ¬ d.length ≥ n - (s.body ++ rem).length := by simp at hl ⊢; omega
          rw [if_neg hl, if_neg hl']
          have he : early cfg.max s.totalBytes 0 = false := by simpa using hearly
          simp [Res.shift, he]
