import Hm.HuffBlocks

/-! Dynamic-Huffman blocks (RFC 1951 §3.2.7): for every header an encoder may write — any HLIT/HDIST/HCLEN, any
    valid code-length code, any run-length coding of the two tables (literal lengths, "repeat previous",
    "repeat zero" short and long) — `dynamicBlock` reconstructs the tables and decodes the symbols. -/

/-- one symbol of the code-length alphabet with its extra bits -/
inductive ClSym where
  | len (v : Nat)     -- 0..15: a code length
  | rep (r : Nat)     -- 16: repeat the previous length 3 + r times (r < 4)
  | z3 (r : Nat)      -- 17: 3 + r zeros (r < 8)
  | z11 (r : Nat)     -- 18: 11 + r zeros (r < 128)

def ClSym.sym : ClSym → Nat
  | .len v => v | .rep _ => 16 | .z3 _ => 17 | .z11 _ => 18

def ClSym.ok : ClSym → Prop
  | .len v => v < 16 | .rep r => r < 4 | .z3 r => r < 8 | .z11 r => r < 128

def clExtra : ClSym → List Bool
  | .len _ => [] | .rep r => bitsLSB 2 r | .z3 r => bitsLSB 3 r | .z11 r => bitsLSB 7 r

def clApply (acc : List Nat) : ClSym → Option (List Nat)
  | .len v => some (acc ++ [v])
  | .rep r => acc.getLast?.map fun prev => acc ++ List.replicate (3 + r) prev
  | .z3 r => some (acc ++ List.replicate (3 + r) 0)
  | .z11 r => some (acc ++ List.replicate (11 + r) 0)

def clRun : List Nat → List ClSym → Option (List Nat)
  | acc, [] => some acc
  | acc, c :: rest => (clApply acc c).bind fun acc' => clRun acc' rest

def clBits (clLens : List Nat) (c : ClSym) : List Bool := canonBits clLens c.sym ++ clExtra c

theorem clApply_length {acc acc' : List Nat} {c : ClSym} (h : clApply acc c = some acc') : acc.length + 1 ≤ acc'.length := by
  cases c with
  | len v => simp [clApply] at h; subst h; simp
  | rep r =>
    simp only [clApply, Option.map_eq_some_iff] at h
    obtain ⟨prev, _, rfl⟩ := h
    simp; omega
  | z3 r => simp [clApply] at h; subst h; simp; omega
  | z11 r => simp [clApply] at h; subst h; simp; omega

theorem clRun_length : ∀ (cls : List ClSym) (acc final : List Nat), clRun acc cls = some final →
    acc.length + cls.length ≤ final.length
  | [], acc, final, h => by simp [clRun] at h; subst h; simp
  | c :: rest, acc, final, h => by
    simp only [clRun, Option.bind_eq_some_iff] at h
    obtain ⟨acc', h1, h2⟩ := h
    have := clApply_length h1
    have := clRun_length rest acc' final h2
    simp only [List.length_cons]; omega

theorem readLens_cls (clLens : List Nat) (hv : validTable true clLens = true) (total : Nat) :
    ∀ (cls : List ClSym) (fuel : Nat) (acc final : List Nat) (i : Inp) (p : Nat),
      (∀ c ∈ cls, c.ok ∧ c.sym < clLens.length ∧ 1 ≤ clLens.getD c.sym 0 ∧ clLens.getD c.sym 0 ≤ 15) →
      clRun acc cls = some final → final.length = total → cls.length < fuel →
      Carries i p (cls.flatMap (clBits clLens)) →
      readLens (mkHuff clLens) total fuel acc i p = .ok (final, p + (cls.flatMap (clBits clLens)).length) := by
  intro cls
  induction cls with
  | nil =>
    intro fuel acc final i p _ hrun hlen hf _
    simp only [clRun, Option.some.injEq] at hrun
    subst hrun
    cases fuel with
    | zero => simp at hf
    | succ fuel =>
      unfold readLens
      have hge : acc.length ≥ total := by omega
      rw [if_pos hge, if_pos hlen]
      simp [R.pure]
  | cons c rest ih =>
    intro fuel acc final i p hok hrun hlen hf hc
    cases fuel with
    | zero => simp at hf
    | succ fuel =>
      simp only [clRun, Option.bind_eq_some_iff] at hrun
      obtain ⟨acc', happ, hrest⟩ := hrun
      have hl1 := clApply_length happ
      have hl2 := clRun_length rest acc' final hrest
      have hlt : ¬ (acc.length ≥ total) := by omega
      obtain ⟨hcok, hcs, hc1, hc15⟩ := hok c (by simp)
      have hokr : ∀ c ∈ rest, c.ok ∧ c.sym < clLens.length ∧ 1 ≤ clLens.getD c.sym 0 ∧ clLens.getD c.sym 0 ≤ 15 :=
        fun c hc => hok c (by simp [hc])
      have hfr : rest.length < fuel := by simp at hf; omega
      simp only [List.flatMap_cons, clBits, List.append_assoc] at hc ⊢
      cases c with
      | len v =>
        simp only [ClSym.ok] at hcok
        simp only [ClSym.sym, clExtra, List.nil_append] at hcs hc1 hc15 hc ⊢
        have hd := decodeSym_canon_at clLens v hcs hc1 hc15 (validTable_fit true clLens hv v hcs hc1 hc15) hc.append_left
        have c1 := hc.append_right
        simp only [clApply, Option.some.injEq] at happ
        subst happ
        unfold readLens
        rw [if_neg hlt]
        simp only [R.bind, hd]
        rw [if_pos hcok]
        rw [ih fuel _ final i _ hokr hrest hlen hfr c1]
        simp only [List.length_append, Except.ok.injEq, Prod.mk.injEq, true_and]
        omega
      | rep r =>
        simp only [ClSym.ok] at hcok
        simp only [ClSym.sym, clExtra] at hcs hc1 hc15 hc ⊢
        have hd := decodeSym_canon_at clLens 16 hcs hc1 hc15 (validTable_fit true clLens hv 16 hcs hc1 hc15) hc.append_left
        have c1 := hc.append_right
        simp only [clApply, Option.map_eq_some_iff] at happ
        obtain ⟨prev, hprev, rfl⟩ := happ
        have hr := readBits_carries 2 r i _ (by omega) c1.append_left
        have c2 := c1.append_right
        simp only [bitsLSB_length] at c2
        unfold readLens
        rw [if_neg hlt]
        have h16 : ¬ ((16 : Nat) < 16) := by omega
        simp only [R.bind, hd, h16, if_false, if_true, hprev, hr]
        rw [ih fuel _ final i _ hokr hrest hlen hfr c2]
        simp only [List.length_append, bitsLSB_length, Except.ok.injEq, Prod.mk.injEq, true_and]
        omega
      | z3 r =>
        simp only [ClSym.ok] at hcok
        simp only [ClSym.sym, clExtra] at hcs hc1 hc15 hc ⊢
        have hd := decodeSym_canon_at clLens 17 hcs hc1 hc15 (validTable_fit true clLens hv 17 hcs hc1 hc15) hc.append_left
        have c1 := hc.append_right
        simp only [clApply, Option.some.injEq] at happ
        subst happ
        have hr := readBits_carries 3 r i _ (by omega) c1.append_left
        have c2 := c1.append_right
        simp only [bitsLSB_length] at c2
        unfold readLens
        rw [if_neg hlt]
        have h1 : ¬ ((17 : Nat) < 16) := by omega
        have h2 : ¬ ((17 : Nat) = 16) := by omega
        simp only [R.bind, hd, h1, h2, if_false, if_true, hr]
        rw [ih fuel _ final i _ hokr hrest hlen hfr c2]
        simp only [List.length_append, bitsLSB_length, Except.ok.injEq, Prod.mk.injEq, true_and]
        omega
      | z11 r =>
        simp only [ClSym.ok] at hcok
        simp only [ClSym.sym, clExtra] at hcs hc1 hc15 hc ⊢
        have hd := decodeSym_canon_at clLens 18 hcs hc1 hc15 (validTable_fit true clLens hv 18 hcs hc1 hc15) hc.append_left
        have c1 := hc.append_right
        simp only [clApply, Option.some.injEq] at happ
        subst happ
        have hr := readBits_carries 7 r i _ (by omega) c1.append_left
        have c2 := c1.append_right
        simp only [bitsLSB_length] at c2
        unfold readLens
        rw [if_neg hlt]
        have h1 : ¬ ((18 : Nat) < 16) := by omega
        have h2 : ¬ ((18 : Nat) = 16) := by omega
        have h3 : ¬ ((18 : Nat) = 17) := by omega
        simp only [R.bind, hd, h1, h2, h3, if_false, hr]
        rw [ih fuel _ final i _ hokr hrest hlen hfr c2]
        simp only [List.length_append, bitsLSB_length, Except.ok.injEq, Prod.mk.injEq, true_and]
        omega

theorem readClLens_carries : ∀ (clv : List Nat) (i : Inp) (p : Nat), (∀ v ∈ clv, v < 8) →
    Carries i p (clv.flatMap (bitsLSB 3)) →
    readClLens clv.length i p = .ok (clv, p + (clv.flatMap (bitsLSB 3)).length)
  | [], i, p, _, _ => by simp [readClLens, R.pure]
  | v :: rest, i, p, hv, hc => by
    simp only [List.flatMap_cons] at hc ⊢
    have hr := readBits_carries 3 v i p (by have := hv v (by simp); omega) hc.append_left
    have c1 := hc.append_right
    simp only [bitsLSB_length] at c1
    have ih := readClLens_carries rest i (p + 3) (fun x hx => hv x (by simp [hx])) c1
    simp only [List.length_cons, readClLens, R.bind, hr, ih, R.pure, List.length_append, bitsLSB_length,
      Except.ok.injEq, Prod.mk.injEq, true_and]
    omega

/-- the header of a dynamic block as an encoder chooses it -/
structure DynHdr where
  hlit : Nat
  hdist : Nat
  hclen : Nat
  clv : List Nat          -- the 3-bit code lengths of the code-length code, in the order 16,17,18,0,8,…
  cls : List ClSym        -- the run-length coded table of literal/length and distance code lengths

/-- the header is well formed and describes the code lengths `lens` -/
structure DynHdr.Describes (h : DynHdr) (lens : List Nat) : Prop where
  hlit_le : h.hlit ≤ 29
  hdist_le : h.hdist ≤ 29
  hclen_le : h.hclen ≤ 15
  clv_len : h.clv.length = h.hclen + 4
  clv_lt : ∀ v ∈ h.clv, v < 8
  cl_valid : validTable true (placeCl h.clv) = true
  cls_ok : ∀ c ∈ h.cls, c.ok ∧ 1 ≤ (placeCl h.clv).getD c.sym 0
  run : clRun [] h.cls = some lens
  total : lens.length = h.hlit + 257 + h.hdist + 1
  lit_valid : validTable false (lens.take (h.hlit + 257)) = true
  dist_valid : validTable false (lens.drop (h.hlit + 257)) = true

def dynHdrBits (h : DynHdr) : List Bool :=
  bitsLSB 5 h.hlit ++ (bitsLSB 5 h.hdist ++ (bitsLSB 4 h.hclen ++ (h.clv.flatMap (bitsLSB 3) ++ h.cls.flatMap (clBits (placeCl h.clv)))))

theorem placeCl_length (clv : List Nat) : (placeCl clv).length = 19 := by simp [placeCl]

theorem placeCl_le (clv : List Nat) (hv : ∀ v ∈ clv, v < 8) (s : Nat) : (placeCl clv).getD s 0 ≤ 15 := by
  unfold placeCl
  by_cases hs : s < 19
  · rw [List.getD_eq_getElem?_getD, List.getElem?_map, List.getElem?_range hs]
    simp only [Option.map_some, Option.getD_some]
    split
    · rename_i k _
      by_cases hk : k < clv.length
      · have := hv (clv[k]) (List.getElem_mem hk)
        rw [List.getD_eq_getElem?_getD, List.getElem?_eq_getElem hk]; simp; omega
      · rw [List.getD_eq_getElem?_getD, List.getElem?_eq_none (by omega)]; simp
    · omega
  · rw [List.getD_eq_getElem?_getD, List.getElem?_eq_none (by simp; omega)]; simp

theorem ClSym.sym_lt (c : ClSym) (h : c.ok) : c.sym < 19 := by
  cases c <;> simp [ClSym.sym, ClSym.ok] at * <;> omega

/-- a dynamic block body: header, symbols, end-of-block — decoded to the expansion of the symbols -/
theorem dynamicBlock_spec (h : DynHdr) (lens : List Nat) (hd : h.Describes lens) (toks : List Tok) (fuel : Nat)
    (out : Array UInt8) (i : Inp) (p : Nat)
    (heob : (dynBook _ _ hd.lit_valid hd.dist_valid).litOk 256)
    (hv : ∀ t ∈ toks, t.okIn (dynBook _ _ hd.lit_valid hd.dist_valid)) (hf : toks.length < fuel)
    (hc : Carries i p (dynHdrBits h ++ codesBits (dynBook _ _ hd.lit_valid hd.dist_valid) toks)) :
    dynamicBlock fuel out i p = .ok (toks.foldl tokApply out,
      p + (dynHdrBits h ++ codesBits (dynBook _ _ hd.lit_valid hd.dist_valid) toks).length) := by
  unfold dynamicBlock
  simp only [dynHdrBits, List.append_assoc] at hc ⊢
  have r1 := readBits_carries 5 h.hlit i p (by have := hd.hlit_le; omega) hc.append_left
  have c1 := hc.append_right
  simp only [bitsLSB_length] at c1
  have r2 := readBits_carries 5 h.hdist i _ (by have := hd.hdist_le; omega) c1.append_left
  have c2 := c1.append_right
  simp only [bitsLSB_length] at c2
  have r3 := readBits_carries 4 h.hclen i _ (by have := hd.hclen_le; omega) c2.append_left
  have c3 := c2.append_right
  simp only [bitsLSB_length] at c3
  have r4 := readClLens_carries h.clv i _ hd.clv_lt c3.append_left
  rw [hd.clv_len] at r4
  have c4 := c3.append_right
  have hclsok : ∀ c ∈ h.cls, c.ok ∧ c.sym < (placeCl h.clv).length ∧ 1 ≤ (placeCl h.clv).getD c.sym 0 ∧ (placeCl h.clv).getD c.sym 0 ≤ 15 := by
    intro c hcm
    have := hd.cls_ok c hcm
    exact ⟨this.1, by rw [placeCl_length]; exact c.sym_lt this.1, this.2, placeCl_le h.clv hd.clv_lt _⟩
  have hclslen : h.cls.length < h.hlit + h.hdist + 400 := by
    have := clRun_length h.cls [] lens hd.run
    have := hd.total
    simp at *; omega
  have r5 := readLens_cls (placeCl h.clv) hd.cl_valid (h.hlit + 257 + h.hdist + 1) h.cls (h.hlit + h.hdist + 400) [] lens i _
    hclsok hd.run hd.total hclslen c4.append_left
  have c5 := c4.append_right
  have hn1 : ¬ (h.hlit + 257 > 286 ∨ h.hdist + 1 > 30) := by have := hd.hlit_le; have := hd.hdist_le; omega
  simp only [R.bind, r1, r2, r3, r4, hd.cl_valid, Bool.not_true, Bool.false_eq_true, if_false, r5, hn1,
    hd.lit_valid, hd.dist_valid, Bool.or_self]
  have := inflateCodes_book (dynBook _ _ hd.lit_valid hd.dist_valid) heob toks fuel out i _ hv hf c5
  simp only [dynBook] at this ⊢
  rw [this]
  simp only [List.length_append, bitsLSB_length, Except.ok.injEq, Prod.mk.injEq, true_and]
  omega
