import Hm.RespSys
import Hm.HeaderAlgebra

/-! Framing is decided by the framing fields alone.  `Response::parse` chooses between a body of declared length, a
    chunked body and no body from `Content-Length` and `Transfer-Encoding` only — not from the status code, the reason
    phrase, nor any other field (`Connection`, `Upgrade`, `Expect`, `Content-Type`, …); `Request::parse` from
    `Content-Length` only.  (C04 / C09: "a message without them has no body, and nothing beyond it is consumed".) -/

def isFramingField (h : Header) : Bool := nameEq h.name kContentLength || nameEq h.name kTransferEncoding

theorem headerMultiValue_filter (hs : List Header) (p : Header → Bool) (n : Bytes)
    (hp : ∀ h, nameEq h.name n = true → p h = true) :
    headerMultiValue (hs.filter p) n = headerMultiValue hs n := by
  unfold headerMultiValue
  rw [List.filter_filter]
  congr 1
  apply List.filter_congr
  intro h _
  cases hn : nameEq h.name n with
  | false => simp
  | true => simp [hp h hn]

theorem headerValue_filter (hs : List Header) (p : Header → Bool) (n : Bytes)
    (hp : ∀ h, nameEq h.name n = true → p h = true) :
    headerValue (hs.filter p) n = headerValue hs n := by
  unfold headerValue; rw [headerMultiValue_filter hs p n hp]

theorem headerTokens_filter (hs : List Header) (p : Header → Bool) (n : Bytes)
    (hp : ∀ h, nameEq h.name n = true → p h = true) :
    headerTokens (hs.filter p) n = headerTokens hs n := by
  unfold headerTokens; rw [headerMultiValue_filter hs p n hp]

theorem hasHeaderToken_filter (hs : List Header) (p : Header → Bool) (n t : Bytes)
    (hp : ∀ h, nameEq h.name n = true → p h = true) :
    hasHeaderToken (hs.filter p) n t = hasHeaderToken hs n t := by
  unfold hasHeaderToken; rw [headerTokens_filter hs p n hp]

/-! ### responses -/

inductive RespFraming where
  | fixed (n : Nat) | chunked | noBody | badLength
deriving Repr, DecidableEq

/-- the decision, as a function of the header list alone -/
def respFraming (hs : List Header) : RespFraming :=
  match headerValue hs kContentLength with
  | some v =>
    match parseNumber ⟨true⟩ 10 v with
    | none => .badLength
    | some cl => .fixed cl
  | none => if hasHeaderToken hs kTransferEncoding kChunked then .chunked else .noBody

/-- what the parser does once the header block is complete is this decision and nothing else: the status code and the
    reason phrase (fields of `s`) are carried along, never looked at -/
theorem rframing_eq (s : RespState) (hs : List Header) (c : Nat) :
    rframing s hs c =
      match respFraming hs with
      | .fixed cl => .ok .completePart { s with headers := hs, phase := .fixedBody cl } c
      | .chunked => .ok .completePart { s with headers := hs, phase := .chunkedBody ChunkState.new } c
      | .noBody => .ok .completeWhole { s with headers := hs } c
      | .badLength => .fail (.err .InvalidContentLength) := by
  unfold rframing respFraming
  cases headerValue hs kContentLength with
  | some v =>
    simp only
    cases parseNumber ⟨true⟩ 10 v <;> rfl
  | none => by_cases h : hasHeaderToken hs kTransferEncoding kChunked = true <;> simp [h]

theorem C04_framing_only_framing_fields (hs : List Header) :
    respFraming hs = respFraming (hs.filter isFramingField) := by
  unfold respFraming
  rw [headerValue_filter hs isFramingField kContentLength (fun h hn => by simp [isFramingField, hn]),
    hasHeaderToken_filter hs isFramingField kTransferEncoding kChunked (fun h hn => by simp [isFramingField, hn])]

/-- two header lists with the same Content-Length and Transfer-Encoding fields (in the same order) are framed alike,
    whatever else they carry -/
theorem C04_framing_other_fields {hs hs' : List Header}
    (h : hs.filter isFramingField = hs'.filter isFramingField) : respFraming hs = respFraming hs' := by
  rw [C04_framing_only_framing_fields hs, C04_framing_only_framing_fields hs', h]

/-- in particular a field of any other name, with any value, anywhere in the list, changes nothing -/
theorem C04_framing_insert_other (hs₁ hs₂ : List Header) (x : Header) (hx : isFramingField x = false) :
    respFraming (hs₁ ++ x :: hs₂) = respFraming (hs₁ ++ hs₂) := by
  apply C04_framing_other_fields
  simp [List.filter_append, hx]

/-- and so does the status code: same header block, different status line ⇒ same framing step -/
theorem C04_framing_status_irrelevant (s : RespState) (code : Nat) (reason : Bytes) (hs : List Header) (c : Nat) :
    (match rframing { s with statusCode := code, reasonPhrase := reason } hs c with
      | .ok i st n => some (i, st.phase, st.body, n) | .fail _ => none)
    = (match rframing s hs c with
      | .ok i st n => some (i, st.phase, st.body, n) | .fail _ => none) := by
  rw [rframing_eq, rframing_eq]
  cases respFraming hs <;> rfl

/-! ### requests -/

def isLengthField (h : Header) : Bool := nameEq h.name kContentLength

inductive ReqFraming where
  | fixed (n : Nat) | noBody | badLength
deriving Repr, DecidableEq

def reqFraming (hs : List Header) : ReqFraming :=
  match headerValue hs kContentLength with
  | none => .noBody
  | some v =>
    match parseNumber ⟨true⟩ 10 v with
    | none => .badLength
    | some cl => .fixed cl

theorem afterHeaders_eq {u : UriImpl} (cfg : ReqCfg) (s : ReqState u) (hs : List Header) (t c : Nat) :
    afterHeaders cfg s hs t c =
      match reqFraming hs with
      | .noBody => .ok .completeWhole { s with headers := hs, totalBytes := t } c
      | .badLength => .fail (.err .InvalidContentLength)
      | .fixed cl =>
        match countR cfg.max t cl with
        | .error f => .fail f
        | .ok t2 => .ok .completePart { s with headers := hs, totalBytes := t2, phase := .body cl } c := by
  unfold afterHeaders reqFraming
  cases headerValue hs kContentLength with
  | none => rfl
  | some v =>
    simp only
    cases parseNumber ⟨true⟩ 10 v <;> rfl

/-- the method, the target and every field but Content-Length (Transfer-Encoding, Expect, Connection, …) are
    irrelevant to how a request is framed -/
theorem C03_framing_only_content_length (hs : List Header) :
    reqFraming hs = reqFraming (hs.filter isLengthField) := by
  unfold reqFraming
  rw [headerValue_filter hs isLengthField kContentLength (fun h hn => by simp [isLengthField, hn])]

theorem C03_framing_other_fields {hs hs' : List Header}
    (h : hs.filter isLengthField = hs'.filter isLengthField) : reqFraming hs = reqFraming hs' := by
  rw [C03_framing_only_content_length hs, C03_framing_only_content_length hs', h]

/-! non-vacuity (evaluated): a `Connection: close` field between the others -/
#guard respFraming [⟨str "Server", str "x"⟩, ⟨str "Connection", str "close"⟩] = .noBody
#guard respFraming [⟨str "Connection", str "close"⟩, ⟨str "content-length", str "5"⟩, ⟨str "Upgrade", str "h2c"⟩] = .fixed 5
#guard respFraming [⟨str "Transfer-Encoding", str "gzip, Chunked"⟩, ⟨str "Connection", str "close"⟩] = .chunked
#guard isFramingField ⟨str "Connection", str "close"⟩ = false
