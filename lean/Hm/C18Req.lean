import Hm.C03C04
import Hm.ReqSys
import Hm.Text

/-! C18 for the request framing decision -/

variable {u : UriImpl}

/-- C18: what a request parser decides after the header block (no body / body of which length / which
    error, and the size accounting) is the same for header lists that differ only in the letter case of
    header names -/
theorem C18_request_framing_case {cfg : ReqCfg} {s : ReqState u} {hs hs' : List Header} (h : HdrEquiv hs hs') (t c : Nat) :
    (match afterHeaders cfg s hs t c, afterHeaders cfg s hs' t c with
     | .fail e, .fail e' => e = e'
     | .ok i st n, .ok i' st' n' => i = i' ∧ n = n' ∧ st.phase = st'.phase ∧ st.totalBytes = st'.totalBytes ∧
         st.body = st'.body ∧ st.method = st'.method
     | _, _ => False) := by
  have hv : headerValue hs kContentLength = headerValue hs' kContentLength := by
    unfold headerValue; rw [headerMultiValue_hdrEquiv h kContentLength]
  unfold afterHeaders
  rw [← hv]
  cases headerValue hs kContentLength with
  | none => simp
  | some v =>
    simp only
    cases parseNumber ⟨true⟩ 10 v with
    | none => simp
    | some cl =>
      simp only
      cases countR cfg.max t cl with
      | error f => simp
      | ok t2 => simp

/-- C18: text decoding does not depend on the letter case of header names -/
theorem C18_text_name_case {hs hs' : List Header} (h : HdrEquiv hs hs') (body : Bytes) :
    decodeBodyAsText hs body = decodeBodyAsText hs' body := by
  have hv : headerValue hs kContentType = headerValue hs' kContentType := by
    unfold headerValue; rw [headerMultiValue_hdrEquiv h kContentType]
  unfold decodeBodyAsText
  rw [hv]
