import Hm.Rhymuri

/-! towards the URI law `parse (display u) = some u` (C10 / C11): the percent codec and path splitting -/

namespace Rhymuri

theorem hexValB_hexUpper : ∀ n, n < 16 → hexValB (hexUpper n) = some n := by decide

/-- decoding undoes encoding, for any printing set contained in the accepting set, `%` in neither -/
theorem decodeGo_encode (enc dec : UInt8 → Bool) (hsub : ∀ b, enc b = true → dec b = true)
    (hpct : enc 37 = false) (s : Bytes) (out : Bytes) :
    decodeGo dec (encodeElement enc s) none out = some (out.reverse ++ s) := by
  induction s generalizing out with
  | nil => simp [encodeElement, decodeGo]
  | cons b rest ih =>
    unfold encodeElement at ih ⊢
    simp only [List.flatMap_cons]
    by_cases hb : (b < 128 && enc b) = true
    · simp only [hb, if_true, List.singleton_append]
      have hencb : enc b = true := by simp only [Bool.and_eq_true] at hb; exact hb.2
      have hne : b ≠ 37 := by intro hc; rw [hc, hpct] at hencb; simp at hencb
      unfold decodeGo
      simp only [hne, if_false, hsub b hencb, if_true]
      rw [ih]; simp
    · simp only [hb, Bool.false_eq_true, if_false, List.cons_append, List.nil_append]
      have h1 : b.toNat / 16 < 16 := by have := b.toNat_lt; omega
      have h2 : b.toNat % 16 < 16 := by omega
      have hval : ((0 * 16 + b.toNat / 16) * 16 + b.toNat % 16) % 256 = b.toNat := by
        have := b.toNat_lt; omega
      unfold decodeGo
      simp only [if_true]
      unfold decodeGo
      simp only [hexValB_hexUpper _ h1]
      have h21 : (2 : Nat) ≠ 1 := by omega
      simp only [h21, if_false]
      unfold decodeGo
      simp only [hexValB_hexUpper _ h2, if_true, hval]
      rw [ih]
      simp

theorem decode_encode (enc dec : UInt8 → Bool) (hsub : ∀ b, enc b = true → dec b = true)
    (hpct : enc 37 = false) (s : Bytes) : decodeElement dec (encodeElement enc s) = some s := by
  unfold decodeElement; rw [decodeGo_encode enc dec hsub hpct]; simp

/-- an encoded element contains only bytes of the printing set, `%` and upper-case hex digits -/
theorem encode_bytes (enc : UInt8 → Bool) (s : Bytes) :
    ∀ b ∈ encodeElement enc s, enc b = true ∨ b = 37 ∨ (48 ≤ b ∧ b ≤ 57) ∨ (65 ≤ b ∧ b ≤ 70) := by
  intro b hb
  unfold encodeElement at hb
  simp only [List.mem_flatMap] at hb
  obtain ⟨x, _, hx⟩ := hb
  split at hx
  · rename_i hc; simp at hx; subst hx; simp only [Bool.and_eq_true] at hc; exact Or.inl hc.2
  · simp only [List.mem_cons, List.mem_nil_iff, or_false] at hx
    have hh : ∀ n, n < 16 → (48 ≤ hexUpper n ∧ hexUpper n ≤ 57) ∨ (65 ≤ hexUpper n ∧ hexUpper n ≤ 70) := by decide
    have h1 : x.toNat / 16 < 16 := by have := x.toNat_lt; omega
    have h2 : x.toNat % 16 < 16 := by omega
    rcases hx with rfl | rfl | rfl
    · exact Or.inr (Or.inl rfl)
    · exact Or.inr (Or.inr (hh _ h1))
    · exact Or.inr (Or.inr (hh _ h2))

theorem splitSlash_no47 (s : Bytes) (h : (47 : UInt8) ∉ s) : splitSlash s = [s] := by
  induction s with
  | nil => rfl
  | cons b rest ih =>
    have hb : b ≠ 47 := fun hc => h (by simp [hc])
    have := ih (fun hc => h (by simp [hc]))
    unfold splitSlash
    simp [hb, this]

theorem splitSlash_append (x J : Bytes) (h : (47 : UInt8) ∉ x) : splitSlash (x ++ 47 :: J) = x :: splitSlash J := by
  induction x with
  | nil => simp [splitSlash]
  | cons b rest ih =>
    have hb : b ≠ 47 := fun hc => h (by simp [hc])
    have := ih (fun hc => h (by simp [hc]))
    simp only [List.cons_append]
    conv => lhs; unfold splitSlash
    simp only [hb, if_false, this]

/-- joining segments with `/` and splitting again is the identity, when no segment contains `/` -/
theorem splitSlash_join (segs : List Bytes) (hne : segs ≠ []) (h : ∀ s ∈ segs, (47 : UInt8) ∉ s) :
    splitSlash (joinWith [47] segs) = segs := by
  induction segs with
  | nil => exact absurd rfl hne
  | cons x rest ih =>
    cases rest with
    | nil => simp only [joinWith]; exact splitSlash_no47 x (h x (by simp))
    | cons y ys =>
      simp only [joinWith, List.append_assoc, List.singleton_append]
      rw [splitSlash_append x _ (h x (by simp)), ih (by simp) (fun s hs => h s (by simp [hs]))]

end Rhymuri

namespace Rhymuri

theorem isPchar_false : isPchar 47 = false ∧ isPchar 63 = false ∧ isPchar 35 = false ∧ isPchar 37 = false := by decide

/-- no byte of an encoded path segment is `/`, `?` or `#` -/
theorem encode_pchar_clean (s : Bytes) : ∀ b ∈ encodeElement isPchar s, b ≠ 47 ∧ b ≠ 63 ∧ b ≠ 35 := by
  intro b hb
  rcases encode_bytes isPchar s b hb with h | rfl | h | h
  · refine ⟨?_, ?_, ?_⟩ <;> (intro hc; subst hc; simp [isPchar_false] at h)
  · decide
  · have h1 := UInt8.le_iff_toNat_le.mp h.1; have h2 := UInt8.le_iff_toNat_le.mp h.2
    simp at h1 h2
    refine ⟨?_, ?_, ?_⟩ <;> (intro hc; subst hc; simp at h1 h2)
  · have h1 := UInt8.le_iff_toNat_le.mp h.1; have h2 := UInt8.le_iff_toNat_le.mp h.2
    simp at h1 h2
    refine ⟨?_, ?_, ?_⟩ <;> (intro hc; subst hc; simp at h1 h2)

theorem mapM_decode_encode (r : List Bytes) :
    (r.map (encodeElement isPchar)).mapM (decodeElement isPchar) = some r := by
  induction r with
  | nil => rfl
  | cons x xs ih =>
    simp only [List.map_cons, List.mapM_cons, decode_encode isPchar isPchar (fun _ h => h) isPchar_false.2.2.2, ih]
    rfl

theorem joinWith_mem (sep : Bytes) (segs : List Bytes) : ∀ b ∈ joinWith sep segs, b ∈ sep ∨ ∃ s ∈ segs, b ∈ s := by
  induction segs with
  | nil => simp [joinWith]
  | cons x rest ih =>
    cases rest with
    | nil => intro b hb; simp only [joinWith] at hb; exact Or.inr ⟨x, by simp, hb⟩
    | cons y ys =>
      intro b hb
      simp only [joinWith, List.mem_append] at hb
      rcases hb with (hb | hb) | hb
      · exact Or.inr ⟨x, by simp, hb⟩
      · exact Or.inl hb
      · rcases ih b hb with h | ⟨s, hs, hbs⟩
        · exact Or.inl h
        · exact Or.inr ⟨s, by simp [hs], hbs⟩

/-- the URI law for origin-form targets without query and fragment: an absolute path (`/`, or `/seg/…` whose
    first segment is not empty) is printed and parsed back to itself -/
theorem parse_display_path (r : List Bytes) (hr : r = [] ∨ ∃ x xs, r = x :: xs ∧ x ≠ []) :
    parse (display ⟨none, none, [] :: r, none, none⟩) = some ⟨none, none, [] :: r, none, none⟩ := by
  rcases hr with rfl | ⟨x, xs, rfl, hx⟩
  · decide
  · -- display = "/" ++ J
    let J := joinWith [47] ((x :: xs).map (encodeElement isPchar))
    have hdisp : display ⟨none, none, [] :: x :: xs, none, none⟩ = 47 :: J := by
      simp [display, joinWith, encodeElement, J]
    rw [hdisp]
    -- J is non-empty, starts with a byte other than `/`, and contains no `?`, `#`
    have hJclean : ∀ b ∈ J, b ≠ 63 ∧ b ≠ 35 := by
      intro b hb
      rcases joinWith_mem [47] _ b hb with h | ⟨s, hs, hbs⟩
      · simp at h; subst h; decide
      · simp only [List.mem_map] at hs
        obtain ⟨s0, _, rfl⟩ := hs
        exact (encode_pchar_clean s0 b hbs).2
    have hex : encodeElement isPchar x ≠ [] := by
      cases x with
      | nil => exact absurd rfl hx
      | cons b bs => unfold encodeElement; simp only [List.flatMap_cons]; split <;> simp
    obtain ⟨j0, J', hJ⟩ : ∃ j0 J', J = j0 :: J' := by
      cases hJ0 : J with
      | nil =>
        exfalso
        simp only [J, List.map_cons] at hJ0
        cases xs with
        | nil => simp [joinWith] at hJ0; exact hex hJ0
        | cons y ys => simp [joinWith] at hJ0
      | cons a as => exact ⟨a, as, rfl⟩
    have hj0 : j0 ≠ 47 := by
      have hmem : j0 ∈ encodeElement isPchar x := by
        have : J.head? = (encodeElement isPchar x).head? := by
          simp only [J, List.map_cons]
          cases xs with
          | nil => simp [joinWith]
          | cons y ys =>
            simp only [joinWith, List.map_cons, List.append_assoc]
            cases hh : encodeElement isPchar x with
            | nil => exact absurd hh hex
            | cons a as => simp
        rw [hJ] at this
        cases hh : encodeElement isPchar x with
        | nil => exact absurd hh hex
        | cons a as => rw [hh] at this; simp at this; subst this; simp
      exact (encode_pchar_clean x j0 hmem).1
    -- run the parser
    unfold parse parseSchemePart
    have hs0 : findByte 47 (47 :: J) = some 0 := by simp [findByte, List.idxOf?, List.findIdx?_cons]
    simp only [hs0, Option.getD_some, List.take_zero]
    have hc0 : findByte 58 ([] : Bytes) = none := rfl
    simp only [hc0]
    have hnone : (47 :: J).findIdx? (fun b => b == 63 || b == 35) = none := by
      rw [List.findIdx?_eq_none_iff]
      intro b hb
      simp only [List.mem_cons] at hb
      rcases hb with rfl | hb
      · decide
      · have := hJclean b hb; simp [this.1, this.2]
    simp only [hnone, Option.getD_none, List.take_length, List.drop_length]
    rw [hJ]
    have hne47 : ¬ (j0 = 47) := hj0
    -- not the `//authority` branch, since the second byte is not `/`
    have hpath : parsePath (47 :: j0 :: J') = some ([] :: x :: xs) := by
      unfold parsePath
      have h1 : (47 :: j0 :: J') ≠ [47] := by simp
      have h2 : (47 :: j0 :: J') ≠ [] := by simp
      simp only [h1, h2, if_false]
      have hsplit : splitSlash (47 :: j0 :: J') = [] :: (x :: xs).map (encodeElement isPchar) := by
        conv => lhs; unfold splitSlash
        simp only [if_true]
        rw [← hJ]
        rw [splitSlash_join _ (by simp)]
        intro s hs
        simp only [List.mem_map] at hs
        obtain ⟨s0, _, rfl⟩ := hs
        intro hc; exact (encode_pchar_clean s0 47 hc).1 rfl
      rw [hsplit]
      simp only [List.mapM_cons]
      have hd : decodeElement isPchar [] = some [] := rfl
      rw [hd, mapM_decode_encode]
      rfl
    have hf : findByte 35 ([] : Bytes) = none := rfl
    split
    · rename_i heq
      split at heq
      · rename_i after heq2
        simp only [List.cons.injEq, true_and] at heq2
        exact absurd heq2.1 hne47
      · rw [hpath] at heq; simp at heq
    · rename_i authority path heq
      split at heq
      · rename_i after heq2
        simp only [List.cons.injEq, true_and] at heq2
        exact absurd heq2.1 hne47
      · rw [hpath] at heq
        simp only [Option.map_some, Option.some.injEq, Prod.mk.injEq] at heq
        obtain ⟨rfl, rfl⟩ := heq
        simp [hf]
end Rhymuri
