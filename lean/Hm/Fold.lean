import Hm.Request
import Hm.Response

/-! rhymessage `MessageHeaders::generate` *with* line folding (lib.rs `fold_header` and the loop of `generate`), for
    header lines of valid UTF-8 (a Rust `String` is nothing else; a line that is not is answered `unmodelled`).
    `fold_header` walks `char_indices`; since the characters it looks for (SP, HT) are single bytes that never occur
    inside a multi-byte sequence, the search over byte indices below finds the same split point:
    `foldHeaderChars_eq` in `Hm/FoldChars` proves it against a transcription that does walk character starts.  `Headers.generate` of `Hm/Rhymessage` is the special case in which every line fits:
    `Headers.generateFold_of_generate`. -/

inductive GenRes where
  | ok (b : Bytes)
  | couldNotBeFolded
  | panic                 -- `line_length_limit - 2` with a limit of 0 or 1 (known finding KF1: overflow checks on)
  | unmodelled            -- a line that needs folding and is not valid UTF-8 (cannot be a Rust `String`)
deriving Repr, DecidableEq

/-- `fold_header(line, limit, skip)` on ASCII text: `none` = could not be folded -/
def foldHeader (line : Bytes) (limit skip : Nat) : Option (Bytes × Bytes) :=
  if line.length ≤ limit then some (line, [])
  else
    -- the split point: the last index `i ≤ limit` with `i ≥ skip` that holds SP or HT
    match ((List.range (min limit (line.length - 1) + 1)).reverse.find? fun i => decide (i ≥ skip) && (line.getD i 0 == SP || line.getD i 0 == HT)) with
    | none => none
    | some i =>
      -- keep one white-space character of the run that starts at the split point, drop the others
      let run := (line.drop i).takeWhile fun b => b == SP || b == HT
      some (line.take i, line.drop (i + run.length - 1))

/-- the `while !rest.is_empty()` loop of `generate` for one header line -/
def foldLine : Nat → Bytes → Nat → Nat → Option Bytes
  | 0, _, _, _ => none
  | fuel + 1, rest, limit, skip =>
    if rest.isEmpty then some []
    else match foldHeader rest limit skip with
      | none => none
      | some (part, rest') => (foldLine fuel rest' limit 1).map fun tail => part ++ CRLF ++ tail

def isAsciiBytes (l : Bytes) : Bool := l.all fun b => b < 128

/-- `MessageHeaders::generate` (overflow checks on) -/
def Headers.generateFold (limit : Option Nat) (hs : List Header) : GenRes :=
  match limit with
  | none => .ok ((hs.flatMap fun h => h.name ++ [COLON, SP] ++ h.value ++ CRLF) ++ CRLF)
  | some lim =>
    if hs.isEmpty then .ok CRLF
    else if lim < 2 then .panic
    else
      let go : List Header → GenRes → GenRes := fun hs acc =>
        hs.foldl (fun acc h =>
          match acc with
          | .ok out =>
            let line := h.name ++ [COLON, SP] ++ h.value
            if line.length ≤ lim - 2 then .ok (out ++ line ++ CRLF)
            else if !validUtf8 line then .unmodelled
            else match foldLine (line.length + 1) line (lim - 2) (h.name.length + 2) with
              | some folded => .ok (out ++ folded)
              | none => .couldNotBeFolded
          | r => r) acc
      match go hs (.ok []) with
      | .ok out => .ok (out ++ CRLF)
      | r => r

def Request.generateFold (u : UriImpl) (cfg : ReqCfg) (s : ReqState u) : GenRes :=
  match Headers.generateFold cfg.hl s.headers with
  | .ok h => .ok (s.method ++ [SP] ++ u.display s.target ++ [SP] ++ http11 ++ CRLF ++ h ++ s.body)
  | r => r

def Response.generateFold (cfg : RespCfg) (s : RespState) : GenRes :=
  match Headers.generateFold cfg.hl s.headers with
  | .ok h => .ok (http11 ++ [SP] ++ natToDec s.statusCode ++ [SP] ++ s.reasonPhrase ++ CRLF ++ h ++ s.body)
  | r => r

/-! ### when every line fits, this is `Headers.generate` -/

theorem foldl_fits (lim : Nat) (hs : List Header) (out : Bytes)
    (hfit : ∀ h ∈ hs, (h.name ++ [COLON, SP] ++ h.value).length ≤ lim - 2) :
    hs.foldl (fun acc h =>
        match acc with
        | GenRes.ok out =>
          let line := h.name ++ [COLON, SP] ++ h.value
          if line.length ≤ lim - 2 then GenRes.ok (out ++ line ++ CRLF)
          else if !validUtf8 line then GenRes.unmodelled
          else match foldLine (line.length + 1) line (lim - 2) (h.name.length + 2) with
            | some folded => GenRes.ok (out ++ folded)
            | none => GenRes.couldNotBeFolded
        | r => r) (GenRes.ok out)
      = GenRes.ok (out ++ hs.flatMap fun h => h.name ++ [COLON, SP] ++ h.value ++ CRLF) := by
  induction hs generalizing out with
  | nil => simp
  | cons h t ih =>
    have hh := hfit h (by simp)
    simp only [List.foldl_cons, hh, if_true, List.flatMap_cons]
    rw [ih _ (fun x hx => hfit x (by simp [hx]))]
    simp [List.append_assoc]

/-- with a limit of at least 2 (below that the dependency underflows: KF1), whatever `Headers.generate` produces is
    what `generate` with folding produces: no line needed folding -/
theorem Headers.generateFold_of_generate {limit : Option Nat} {hs : List Header} {b : Bytes}
    (hlim : ∀ l, limit = some l → 2 ≤ l) (h : Headers.generate limit hs = some b) :
    Headers.generateFold limit hs = .ok b := by
  unfold Headers.generate at h
  simp only at h
  split at h
  · simp at h
  · rename_i hall
    simp at h
    cases limit with
    | none =>
      simp only [Headers.generateFold]
      rw [← h]
      congr 1
      simp [List.flatMap_map, List.append_assoc]
    | some lim =>
      have h2 := hlim lim rfl
      simp only [Headers.generateFold]
      by_cases he : hs.isEmpty = true
      · have : hs = [] := by simpa using he
        subst this; simp at h ⊢; exact h
      · simp only [he, Bool.false_eq_true, if_false]
        have hlt : ¬ lim < 2 := by omega
        simp only [hlt, if_false]
        have hfit : ∀ x ∈ hs, (x.name ++ [COLON, SP] ++ x.value).length ≤ lim - 2 := by
          intro x hx
          have := hall
          simp only [List.any_map, List.any_eq_true, not_exists, not_and, Function.comp] at this
          have hx' := this x hx
          simp only [overLimit, decide_eq_true_eq] at hx'
          omega
        rw [foldl_fits lim hs [] hfit]
        simp only [List.nil_append]
        rw [← h]
        congr 1
        simp [List.flatMap_map, List.append_assoc]

/-! tests (`#guard`): folding at the last white space at or before the limit, one white-space character kept -/
#guard foldHeader (str "X: aaaa bbbb cccc") 10 3 = some (str "X: aaaa", str " bbbb cccc")
#guard foldHeader (str "X: aaaa    bbbb") 10 3 = some (str "X: aaaa   ", str " bbbb")
#guard foldHeader (str "X: aaaaaaaaaaaaaaa") 10 3 = none
#guard Headers.generateFold (some 12) [⟨str "X", str "aaaa bbbb cccc"⟩] = .ok (str "X: aaaa\r\n bbbb cccc\r\n\r\n")
#guard Headers.generateFold (some 8) [⟨str "Xyz", str "a b c d e f g"⟩] = .ok (str "Xyz: a\r\n b c d\r\n e f g\r\n\r\n")
#guard Headers.generateFold (some 9) [⟨str "X", str "a\tb  c\t\td e"⟩] = .ok (str "X: a\tb \r\n c\t\td e\r\n\r\n")
#guard Headers.generateFold (some 12) [⟨str "X", str "aaaaaaaaaaaaaaa"⟩] = .couldNotBeFolded
#guard Headers.generateFold (some 1) [⟨str "X", str "a"⟩] = .panic

/-! ### known finding KF4: folding is not undone by unfolding

    `fold_header` breaks a line at a white-space character and keeps that character at the head of the continuation
    line; `unfold_header` joins continuation lines with one SP after trimming them.  A tab at the break, or a run of
    blanks that straddles the limit, therefore comes back as a single SP.  Since `Name:value` is accepted without a
    blank after the colon and written back as `Name: value`, a header line of exactly the limit that the parser
    accepted is one byte too long when it is generated again, is folded, and — if the last white space before the
    limit is a tab — does not parse back to the value it had.  C11 fails there (dependency rhymessage; the crate only
    passes its own line limit on).  Kernel-checked on the model with a limit of 12: -/

def kf4Input : Bytes := [88, 58, 97, 97, 97, 97, 97, 9, 98, 98, 13, 10, 13, 10]
#guard kf4Input = str "X:aaaaa\tbb\r\n\r\n"

theorem KF4_fold_loses_tab :
    ∃ hs1 out hs2, (Headers.parse (some 12) [] kf4Input).toOption = some (hs1, .complete, kf4Input.length) ∧
      Headers.generateFold (some 12) hs1 = .ok out ∧
      (Headers.parse (some 12) [] out).toOption = some (hs2, .complete, out.length) ∧ hs1 ≠ hs2 := by
  refine ⟨[⟨[88], [97, 97, 97, 97, 97, 9, 98, 98]⟩],
    [88, 58, 32, 97, 97, 97, 97, 97, 13, 10, 9, 98, 98, 13, 10, 13, 10],
    [⟨[88], [97, 97, 97, 97, 97, 32, 98, 98]⟩], ?_, ?_, ?_, ?_⟩ <;> decide +kernel
