import Hm.ReqProps

/-! C08 (exactness of the two line limits, and "None disables exactly that limit"), repaired tree -/

variable {u : UriImpl}

theorem parseRequestLine_ne_tooLong (line : Bytes) : parseRequestLine u line ≠ .error .RequestLineTooLong := by
  unfold parseRequestLine
  cases findByte SP line with
  | none => simp
  | some md =>
    simp only
    split
    · simp
    · cases findByte SP (line.drop (md + 1)) with
      | none => simp
      | some td =>
        simp only
        split
        · simp
        · cases u.parse ((line.drop (md + 1)).take td) with
          | none => simp
          | some t => simp only; split <;> simp

/-- the request-line limit is exact on a terminated line: rejected as too long iff its length
    (without the CRLF) exceeds the limit — whatever else is wrong with the line -/
theorem C08_request_line_exact {cfg : ReqCfg} {s : ReqState u} {rem : Bytes} {e : Nat}
    (hf : findCrlf rem = some e) :
    rlStep u cfg s rem = .fail (.err .RequestLineTooLong) ↔ overLimit cfg.rl e = true := by
  unfold rlStep
  simp only [hf]
  constructor
  · intro h
    apply Decidable.byContradiction
    intro hn
    rw [if_neg hn] at h
    split at h
    · simp at h
    · cases hc : countR cfg.max s.totalBytes (e + 2) with
      | error f => simp [hc] at h; have := countR_error_is_err hc; rw [this] at h; simp at h
      | ok t =>
        simp only [hc] at h
        cases hp : parseRequestLine u (rem.take e) with
        | ok r => simp [hp] at h
        | error c =>
          simp only [hp, Res.fail.injEq, Fail.err.injEq] at h
          subst h
          exact parseRequestLine_ne_tooLong _ hp
  · intro h; simp [h]

/-- and on an unterminated line: rejected as too long iff the bytes of the line seen so far (a dangling
    CR not counted) exceed the limit -/
theorem C08_request_line_exact_unterminated {cfg : ReqCfg} {s : ReqState u} {rem : Bytes}
    (hf : findCrlf rem = none) :
    rlStep u cfg s rem = .fail (.err .RequestLineTooLong) ↔ overLimit cfg.rl (stripDanglingCr rem).length = true := by
  unfold rlStep
  simp only [hf]
  constructor
  · intro h
    apply Decidable.byContradiction
    intro hn
    rw [if_neg hn] at h
    split at h <;> simp at h
  · intro h; simp [h]

/-- setting the request-line limit to `None` disables exactly that rejection -/
theorem C08_request_line_none {cfg : ReqCfg} (hn : cfg.rl = none) (s : ReqState u) (rem : Bytes) :
    rlStep u cfg s rem ≠ .fail (.err .RequestLineTooLong) := by
  intro h
  cases hf : findCrlf rem with
  | some e => have := (C08_request_line_exact hf).mp h; simp [hn, overLimit] at this
  | none => have := (C08_request_line_exact_unterminated hf).mp h; simp [hn, overLimit] at this

theorem unfold_ne_tooLong {f : Nat} {raw v : Bytes} {c : Nat} : unfold f raw v c ≠ .error .HeaderLineTooLong := by
  induction f generalizing raw v c with
  | zero => simp [unfold]
  | succ f ih =>
    unfold unfold
    split
    · simp
    · simp only
      split
      · simp
      · split
        · split
          · simp
          · exact ih
        · simp

/-- the header-line limit is exact on the first line of a field: rejected as too long iff its length
    including the CRLF exceeds the limit -/
theorem C08_header_line_exact {limit : Option Nat} {rest : Bytes} {i : Nat} (hne : rest ≠ [])
    (hf : findCrlf rest = some i) :
    headerStep limit rest = .error .HeaderLineTooLong ↔ overLimit limit (i + 2) = true := by
  unfold headerStep
  rw [if_neg hne]
  simp only [hf]
  constructor
  · intro h
    apply Decidable.byContradiction
    intro hn
    rw [if_neg hn] at h
    split at h
    · simp at h
    · cases hp : parseFirstLine (rest.take i) with
      | error e =>
        simp only [hp, Except.error.injEq] at h
        subst h
        unfold parseFirstLine at hp
        split at hp
        · simp at hp
        · split at hp
          · simp at hp
          · split at hp
            · simp at hp
            · split at hp <;> simp at hp
      | ok nv =>
        obtain ⟨name, v0⟩ := nv
        simp only [hp] at h
        cases hu : unfold (rest.length + 1) (rest.drop (i + 2)) v0 0 with
        | error e => simp only [hu, finishField, Except.error.injEq] at h; subst h; exact unfold_ne_tooLong hu
        | ok o => cases o <;> simp [hu, finishField] at h
  · intro h; simp [h]

theorem C08_header_line_none {rest : Bytes} : headerStep none rest ≠ .error .HeaderLineTooLong := by
  intro h
  by_cases hne : rest = []
  · simp [headerStep, hne] at h
  · cases hf : findCrlf rest with
    | some i => have := (C08_header_line_exact hne hf).mp h; simp [overLimit] at this
    | none => simp [headerStep, hne, hf, overLimit] at h
