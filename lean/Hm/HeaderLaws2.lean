import Hm.HeaderLaws

/-! loop-level and `Headers.parse`-level laws -/

theorem parseLoop_fuel_irrel {limit : Option Nat} {f1 f2 : Nat} {hs : List Header} {rest : Bytes} {off : Nat}
    (h1 : rest.length + 1 ≤ f1) (h2 : rest.length + 1 ≤ f2) :
    parseLoop limit f1 hs rest off = parseLoop limit f2 hs rest off := by
  induction f1 generalizing f2 hs rest off with
  | zero => omega
  | succ f1 ih =>
    cases f2 with
    | zero => omega
    | succ f2 =>
      unfold parseLoop
      cases hstep : headerStep limit rest with
      | error e => rfl
      | ok st =>
        cases st with
        | more => rfl
        | done => rfl
        | field h n =>
          have hb := headerStep_field_bounds hstep
          simp only
          apply ih <;> simp <;> omega

/-- results other than "incomplete" do not depend on surplus fuel -/
theorem parseLoop_fuel_mono_complete {limit : Option Nat} {f : Nat} {hs hs' : List Header} {rest : Bytes}
    {off c : Nat} (h : parseLoop limit f hs rest off = .ok (hs', .complete, c)) (k : Nat) :
    parseLoop limit (f + k) hs rest off = .ok (hs', .complete, c) := by
  induction f generalizing hs rest off with
  | zero => simp [parseLoop] at h
  | succ f ih =>
    rw [show f + 1 + k = (f + k) + 1 by omega]
    unfold parseLoop at h ⊢
    split at h
    · simp at h
    · simp at h
    · exact h
    · exact ih h

theorem parseLoop_fuel_mono_error {limit : Option Nat} {f : Nat} {hs : List Header} {rest : Bytes}
    {off : Nat} {e : HErr} (h : parseLoop limit f hs rest off = .error e) (k : Nat) :
    parseLoop limit (f + k) hs rest off = .error e := by
  induction f generalizing hs rest off with
  | zero => simp [parseLoop] at h
  | succ f ih =>
    rw [show f + 1 + k = (f + k) + 1 by omega]
    unfold parseLoop at h ⊢
    split at h
    · exact h
    · simp at h
    · simp at h
    · exact ih h

/-- bounds on the consumed count -/
theorem parseLoop_consumed {limit : Option Nat} {f : Nat} {hs hs' : List Header} {rest : Bytes}
    {off c : Nat} {st : HStatus} (h : parseLoop limit f hs rest off = .ok (hs', st, c)) :
    off ≤ c ∧ c ≤ off + rest.length := by
  induction f generalizing hs rest off with
  | zero => simp [parseLoop] at h; omega
  | succ f ih =>
    unfold parseLoop at h
    split at h
    · simp at h
    · simp at h; omega
    · rename_i hd
      have := (headerStep_append_done hd []).2
      simp at h; omega
    · rename_i hh n hf
      have hb := headerStep_field_bounds hf
      have := ih h
      simp at this; omega

/-- P1 (lockstep form): completion is stable under extension -/
theorem parseLoop_append_complete {limit : Option Nat} {f : Nat} {hs hs' : List Header}
    {rest : Bytes} {off c : Nat}
    (h : parseLoop limit f hs rest off = .ok (hs', .complete, c)) (d : Bytes) :
    parseLoop limit f hs (rest ++ d) off = .ok (hs', .complete, c) := by
  induction f generalizing hs rest off with
  | zero => simp [parseLoop] at h
  | succ f ih =>
    unfold parseLoop at h ⊢
    split at h
    · simp at h
    · simp at h
    · rename_i hd
      rw [(headerStep_append_done hd d).1]; simpa using h
    · rename_i hh n hf
      have hb := headerStep_field_bounds hf
      rw [headerStep_append_field hf d]; simp only
      rw [drop_append_of_le (by omega) d]
      exact ih h

theorem getLast?_drop_ne {rest : Bytes} {n : Nat} (hn : n < rest.length) :
    (rest.drop n).getLast? = rest.getLast? := by
  rw [List.getLast?_drop]; simp; omega

/-- P3 (lockstep form): rejection is stable under extension, given no dangling CR (or no limit) -/
theorem parseLoop_append_error {limit : Option Nat} {f : Nat} {hs : List Header}
    {rest : Bytes} {off : Nat} {e : HErr}
    (h : parseLoop limit f hs rest off = .error e) (d : Bytes)
    (hcr : limit = none ∨ rest.getLast? ≠ some CR ∨ d.head? ≠ some LF) :
    ∃ e', parseLoop limit f hs (rest ++ d) off = .error e' := by
  induction f generalizing hs rest off with
  | zero => simp [parseLoop] at h
  | succ f ih =>
    unfold parseLoop at h ⊢
    split at h
    · rename_i e1 he
      obtain ⟨e', he'⟩ := headerStep_append_error d he hcr
      exact ⟨e', by rw [he']⟩
    · simp at h
    · simp at h
    · rename_i hh n hf
      have hb := headerStep_field_bounds hf
      rw [headerStep_append_field hf d]; simp only
      rw [drop_append_of_le (by omega) d]
      apply ih h
      rcases hcr with h1 | h1 | h1
      · exact Or.inl h1
      · right; left; rw [getLast?_drop_ne (by omega)]; exact h1
      · right; right; exact h1

/-- P2: an incomplete run can be resumed: running on the extended buffer from the start equals
    resuming from the returned state on the unconsumed rest plus the new bytes -/
theorem parseLoop_append_incomplete {limit : Option Nat} {f : Nat} {hs hs' : List Header}
    {rest : Bytes} {off c : Nat}
    (h : parseLoop limit f hs rest off = .ok (hs', .incomplete, c)) (hf : rest.length + 1 ≤ f)
    (d : Bytes) {f1 f2 : Nat} (h1 : (rest ++ d).length + 1 ≤ f1)
    (h2 : (rest.drop (c - off) ++ d).length + 1 ≤ f2) :
    parseLoop limit f1 hs (rest ++ d) off = parseLoop limit f2 hs' (rest.drop (c - off) ++ d) c := by
  induction f generalizing hs rest off f1 with
  | zero => omega
  | succ f ih =>
    unfold parseLoop at h
    split at h
    · simp at h
    · -- this iteration could not decide: nothing consumed, state unchanged
      simp at h
      obtain ⟨rfl, rfl⟩ := h
      simp only [Nat.sub_self, List.drop_zero] at h2 ⊢
      exact parseLoop_fuel_irrel h1 h2
    · simp at h
    · rename_i hh n hstep
      have hb := headerStep_field_bounds hstep
      have hc := parseLoop_consumed h
      cases f1 with
      | zero => omega
      | succ f1 =>
        conv => lhs; unfold parseLoop
        rw [headerStep_append_field hstep d]; simp only
        rw [drop_append_of_le (by omega) d]
        have hdrop : (rest.drop n).drop (c - (off + n)) = rest.drop (c - off) := by
          rw [List.drop_drop]; congr 1; omega
        have := ih h (by simp; omega) (f1 := f1) (by simp at h1 ⊢; omega) (by rw [hdrop]; exact h2)
        rw [this, hdrop]

/-! ### the same laws for `Headers.parse` -/

theorem Headers.parse_append_complete {limit : Option Nat} {hs hs' : List Header} {raw : Bytes} {c : Nat}
    (h : Headers.parse limit hs raw = .ok (hs', .complete, c)) (d : Bytes) :
    Headers.parse limit hs (raw ++ d) = .ok (hs', .complete, c) ∧ c ≤ raw.length := by
  unfold Headers.parse at h ⊢
  have hc := parseLoop_consumed h
  refine ⟨?_, by omega⟩
  have := parseLoop_fuel_mono_complete (parseLoop_append_complete h d) d.length
  rw [show (raw ++ d).length + 1 = raw.length + 1 + d.length by simp; omega]
  exact this

theorem Headers.parse_append_error {limit : Option Nat} {hs : List Header} {raw : Bytes} {e : HErr}
    (h : Headers.parse limit hs raw = .error e) (d : Bytes)
    (hcr : limit = none ∨ raw.getLast? ≠ some CR ∨ d.head? ≠ some LF) :
    ∃ e', Headers.parse limit hs (raw ++ d) = .error e' := by
  unfold Headers.parse at h ⊢
  obtain ⟨e', he'⟩ := parseLoop_append_error h d hcr
  refine ⟨e', ?_⟩
  have := parseLoop_fuel_mono_error he' d.length
  rw [show (raw ++ d).length + 1 = raw.length + 1 + d.length by simp; omega]
  exact this

/-- shift the consumed count of a result -/
def shiftConsumed (c : Nat) : Except HErr (List Header × HStatus × Nat) → Except HErr (List Header × HStatus × Nat)
  | .ok (hs, st, n) => .ok (hs, st, c + n)
  | .error e => .error e

theorem parseLoop_off {limit : Option Nat} {f : Nat} {hs : List Header} {rest : Bytes} {off : Nat} :
    parseLoop limit f hs rest off = shiftConsumed off (parseLoop limit f hs rest 0) := by
  induction f generalizing hs rest off with
  | zero => simp [parseLoop, shiftConsumed]
  | succ f ih =>
    unfold parseLoop
    split
    · simp [shiftConsumed]
    · simp [shiftConsumed]
    · simp [shiftConsumed]
    · rename_i hh n hf
      rw [ih (off := off + n), ih (off := 0 + n)]
      cases parseLoop limit f (hs ++ [hh]) (rest.drop n) 0 with
      | error e => simp [shiftConsumed]
      | ok r => obtain ⟨a, b, c⟩ := r; simp [shiftConsumed]; omega

theorem Headers.parse_append_incomplete {limit : Option Nat} {hs hs' : List Header} {raw : Bytes} {c : Nat}
    (h : Headers.parse limit hs raw = .ok (hs', .incomplete, c)) (d : Bytes) :
    c ≤ raw.length ∧
    Headers.parse limit hs (raw ++ d) = shiftConsumed c (Headers.parse limit hs' (raw.drop c ++ d)) := by
  unfold Headers.parse at h ⊢
  have hc := parseLoop_consumed h
  refine ⟨by omega, ?_⟩
  have := parseLoop_append_incomplete h (Nat.le_refl _) d
    (f1 := (raw ++ d).length + 1) (f2 := (raw.drop c ++ d).length + 1) (Nat.le_refl _) (by simp)
  simp only [Nat.sub_zero] at this
  rw [this, parseLoop_off]
