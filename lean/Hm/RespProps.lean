import Hm.C02
import Hm.C17

/-! C06 and C17 for the response parser and the chunk decoder (repaired tree) -/

/-! ### C06: no trap is reachable -/

theorem chunkStep_no_panic {c : ChunkState} {rem : Bytes} {e : Fail}
    (h : chunkStep c rem = .fail e) : ∃ cat, e = .err cat := by
  unfold chunkStep at h
  split at h
  · unfold cdataStep at h; simp only at h; split at h <;> simp at h
  · unfold csizeStep at h
    split at h
    · simp at h
    · split at h
      · simp at h; exact ⟨_, h.symm⟩
      · split at h
        · simp at h; exact ⟨_, h.symm⟩
        · simp at h
  · unfold ctermStep at h
    split at h
    · simp at h
    · split at h
      · simp at h
      · simp at h; exact ⟨_, h.symm⟩
    · split at h
      · simp at h
      · simp at h; exact ⟨_, h.symm⟩
  · unfold ctrailerStep at h
    split at h
    · simp at h; exact ⟨_, h.symm⟩
    · simp at h
    · simp at h

theorem chunkLoop_no_panic {f : Nat} {c : ChunkState} {rem : Bytes} {acc : Nat} {e : Fail}
    (h : chunkSys.loop f c rem acc = some (.fail e)) : ∃ cat, e = .err cat := by
  induction f generalizing c rem acc with
  | zero => simp [Sys.loop] at h
  | succ f ih =>
    unfold Sys.loop at h
    cases hs : chunkSys.step c rem with
    | fail e1 =>
      simp only [hs, Option.some.injEq, PRes.fail.injEq] at h; subst h
      exact chunkStep_no_panic hs
    | ok i s1 c1 =>
      cases i with
      | completePart => simp only [hs] at h; exact ih h
      | completeWhole => simp [hs] at h
      | incomplete => simp [hs] at h

theorem chunkParse_no_panic {c : ChunkState} {raw : Bytes} {e : Fail}
    (h : chunkSys.parse c raw = .fail e) : ∃ cat, e = .err cat := by
  unfold Sys.parse at h
  cases hl : chunkSys.loop (chunkSys.μ c raw.length) c raw 0 with
  | none =>
    have := Sys.loop_isSome chunkSys_lawful trivial (Nat.le_refl _) (acc := 0) (rem := raw) (s := c)
    simp [hl] at this
  | some r =>
    simp only [hl] at h; subst h
    exact chunkLoop_no_panic hl

theorem respStep_no_panic {hl : Option Nat} {s : RespState} {rem : Bytes} {e : Fail}
    (hI : RespInv s) (h : respStep hl s rem = .fail e) : ∃ cat, e = .err cat := by
  unfold respStep at h
  unfold RespInv at hI
  split at h
  · rename_i cs hph
    unfold rchunkStep at h
    cases hp : chunkSys.parse cs rem with
    | fail e0 => simp [hp] at h; subst h; exact chunkParse_no_panic hp
    | ok st cs' m => cases st <;> simp [hp] at h
  · rename_i n hph
    simp only [hph] at hI
    unfold rfixedStep at h
    split at h
    · omega
    · split at h <;> simp at h
  · unfold rhdrStep at h
    split at h
    · simp at h; exact ⟨_, h.symm⟩
    · simp at h
    · unfold rframing at h
      split at h
      · split at h
        · simp at h; exact ⟨_, h.symm⟩
        · simp at h
      · split at h <;> simp at h
  · unfold rstatusStep at h
    split at h
    · simp at h
    · split at h
      · simp at h; exact ⟨_, h.symm⟩
      · split at h
        · simp at h; exact ⟨_, h.symm⟩
        · simp at h

theorem respLoop_no_panic {hl : Option Nat} {f : Nat} {s : RespState} {rem : Bytes} {acc : Nat} {e : Fail}
    (hI : RespInv s) (h : (respSys hl).loop f s rem acc = some (.fail e)) : ∃ cat, e = .err cat := by
  induction f generalizing s rem acc with
  | zero => simp [Sys.loop] at h
  | succ f ih =>
    unfold Sys.loop at h
    cases hs : (respSys hl).step s rem with
    | fail e1 =>
      simp only [hs, Option.some.injEq, PRes.fail.injEq] at h; subst h
      exact respStep_no_panic hI hs
    | ok i s1 c1 =>
      cases i with
      | completePart => simp only [hs] at h; exact ih ((respSys_lawful hl).inv hI hs (by simp)) h
      | completeWhole => simp [hs] at h
      | incomplete => simp [hs] at h

/-- C06 for response parsing (all framings, any header line limit) on the current tree: never a trap, never out of fuel -/
theorem C06_response_no_crash (hl : Option Nat) (ds : List Bytes) :
    let c0 : GConn Fail RespState := { st := Response.new, pending := [], total := 0, verdict := .more }
    ∀ e, ((respSys hl).run c0 ds).verdict = .failed e → ∃ cat, e = .err cat := by
  intro c0
  let P : GConn Fail RespState → Prop := fun c =>
    ((match c.verdict with | .more => True | _ => False) → RespInv c.st) ∧
    ∀ e, c.verdict = .failed e → ∃ cat, e = .err cat
  have h0 : P c0 := ⟨fun _ => respInv_new, by simp [c0]⟩
  have hstep : ∀ c d, P c → P ((respSys hl).deliver c d) := by
    intro c d hc
    unfold Sys.deliver
    cases hv : c.verdict with
    | complete => simpa [P, hv] using hc
    | failed e => simpa [P, hv] using hc
    | more =>
      simp only
      have hI : RespInv c.st := hc.1 (by simp [hv])
      cases hp : (respSys hl).parse c.st (c.pending ++ d) with
      | fail e =>
        refine ⟨by simp, ?_⟩
        intro e' he'
        simp at he'; subst he'
        unfold Sys.parse at hp
        cases hlo : (respSys hl).loop ((respSys hl).μ c.st (c.pending ++ d).length) c.st (c.pending ++ d) 0 with
        | none =>
          have := Sys.loop_isSome (respSys_lawful hl) hI (Nat.le_refl _) (acc := 0) (rem := c.pending ++ d)
          rw [hlo] at this; simp at this
        | some r => simp only [hlo] at hp; subst hp; exact respLoop_no_panic hI hlo
      | ok st s' n =>
        have := (Sys.parse_inv (respSys_lawful hl) hI hp).1
        cases st with
        | complete => exact ⟨by simp, by simp⟩
        | incomplete => exact ⟨fun _ => this rfl, by simp⟩
  suffices ∀ c, P c → P ((respSys hl).run c ds) from (this c0 h0).2
  induction ds with
  | nil => intro c hc; exact hc
  | cons d ds ih => intro c hc; exact ih _ (hstep c d hc)

/-! ### C17: status code, chunk size -/

/-- hexadecimal analogue of `parseNumber_digits` -/
def isHexDigit (b : UInt8) : Bool := (48 ≤ b && b ≤ 57) || (97 ≤ b && b ≤ 102) || (65 ≤ b && b ≤ 70)
def allHexDigits (s : Bytes) : Bool := !s.isEmpty && s.all isHexDigit

theorem digitVal_sixteen {b : UInt8} {d : Nat} (h : digitVal 16 b = some d) : isHexDigit b = true := by
  unfold digitVal at h
  unfold isHexDigit
  by_cases h1 : 48 ≤ b ∧ b ≤ 57
  · simp [h1.1, h1.2]
  · simp only [h1, if_false] at h
    by_cases h2 : 97 ≤ b ∧ b ≤ 102
    · simp [h2.1, h2.2]
    · simp only [h2, if_false] at h
      by_cases h3 : 65 ≤ b ∧ b ≤ 70
      · simp [h3.1, h3.2]
      · simp [h3] at h

theorem accDigits_sixteen {max acc n : Nat} {s : Bytes} (h : accDigits 16 max acc s = some n) :
    s.all isHexDigit = true := by
  induction s generalizing acc with
  | nil => simp
  | cons b rest ih =>
    unfold accDigits at h
    cases hd : digitVal 16 b with
    | none => simp [hd] at h
    | some d =>
      simp only [hd] at h
      split at h
      · simp at h
      · simp [digitVal_sixteen hd, ih h]

theorem parseNumber_hexdigits {v : Bytes} {n : Nat} (h : parseNumber ⟨true⟩ 16 v = some n) : allHexDigits v = true := by
  unfold parseNumber at h
  unfold allHexDigits
  cases v with
  | nil => simp [rustParseUnsigned] at h
  | cons b rest =>
    simp only [Bool.true_and, List.head?_cons, Option.some.injEq] at h
    by_cases hb : b = PLUS
    · simp [hb] at h
    · simp only [hb, decide_false, Bool.false_eq_true, if_false] at h
      unfold rustParseUnsigned at h
      cases rest with
      | nil =>
        simp only [hb, false_or] at h
        split at h
        · simp at h
        · simpa using accDigits_sixteen h
      | cons c rest' =>
        simp only [hb, if_false] at h
        simpa using accDigits_sixteen h

/-- C17 (chunk size): a chunk-size line is accepted only if the text before `;` (or the whole line)
    is `1*HEXDIG` -/
theorem C17_chunk_size {line : Bytes} {n : Nat} (h : parseChunkSize ⟨true⟩ line = some n) :
    allHexDigits (line.take ((findByte SEMI line).getD line.length)) = true := by
  unfold parseChunkSize at h
  simp only [if_true] at h
  exact parseNumber_hexdigits h

/-- C17 (status code): a status line is accepted only if the text between the two spaces is `1*DIGIT` -/
theorem C17_status_code {line reason : Bytes} {code : Nat} (h : parseStatusLine ⟨true⟩ line = .ok (code, reason)) :
    ∃ pd cd, findByte SP line = some pd ∧ findByte SP (line.drop (pd + 1)) = some cd ∧
      allDigits ((line.drop (pd + 1)).take cd) = true := by
  unfold parseStatusLine at h
  cases hpd : findByte SP line with
  | none => simp [hpd] at h
  | some pd =>
    simp only [hpd] at h
    split at h
    · simp at h
    · cases hcd : findByte SP (line.drop (pd + 1)) with
      | none => simp [hcd] at h
      | some cd =>
        simp only [hcd] at h
        cases hn : parseNumber ⟨true⟩ 10 ((line.drop (pd + 1)).take cd) with
        | none => simp [hn] at h
        | some k => exact ⟨pd, cd, rfl, hcd, parseNumber_digits hn⟩
