import Hm.FixedHuff
import Hm.Containers
import Hm.C13EndToEnd

/-! C13 for fixed-Huffman streams: every sequence of fixed-Huffman blocks (any literals, any back-references, any
    split into blocks), bare or inside the gzip or zlib container, is decoded to the expansion of its symbols; and
    stacks of arbitrary correct codecs are undone by `decode_body`'s loop. -/

theorem litCode_length_ge (s : Nat) : 7 ≤ (litCode s).length := by
  unfold litCode
  split
  · simp [bitsMSB_length]
  · split
    · simp [bitsMSB_length]
    · split <;> simp [bitsMSB_length]

theorem tokBits_length_pos (t : Tok) : 1 ≤ (tokBits t).length := by
  cases t with
  | lit b => have := litCode_length_ge b.toNat; simp only [tokBits]; omega
  | mat ls eb ds db => have := litCode_length_ge (257 + ls); simp only [tokBits, List.length_append]; omega

theorem toks_le_bits (toks : List Tok) : toks.length ≤ (toks.flatMap tokBits).length := by
  induction toks with
  | nil => simp
  | cons t rest ih =>
    have := tokBits_length_pos t
    simp only [List.flatMap_cons, List.length_cons, List.length_append]; omega

theorem fixedBlockBits_length (final : Bool) (toks : List Tok) : toks.length + 10 ≤ (fixedBlockBits final toks).length := by
  have := toks_le_bits toks
  have := litCode_length_ge 256
  simp only [fixedBlockBits, List.length_cons, List.length_append]; omega

theorem fixedEnc_bounds : ∀ (blocks : List (List Tok)),
    blocks.length ≤ (fixedEnc blocks).length ∧ ∀ b ∈ blocks, b.length < (fixedEnc blocks).length
  | [] => by simp [fixedEnc]
  | [t] => by
    have := fixedBlockBits_length true t
    simp only [fixedEnc, List.length_singleton, List.mem_singleton]
    exact ⟨by omega, fun b hb => by subst hb; omega⟩
  | t :: t2 :: rest => by
    have ih := fixedEnc_bounds (t2 :: rest)
    have := fixedBlockBits_length false t
    simp only [fixedEnc, List.length_cons, List.length_append, List.mem_cons] at ih ⊢
    refine ⟨by omega, ?_⟩
    intro b hb
    rcases hb with rfl | hb
    · omega
    · have := ih.2 b hb; omega

/-- the reader-level fact all three containers use: inside any byte string that holds the packed stream at byte
    offset `|A|`, `inflateR` started there yields the expansion and stops after the last bit of the stream -/
theorem inflateR_fixed (A C : Bytes) (blocks : List (List Tok)) (hne : blocks ≠ [])
    (hv : ∀ b ∈ blocks, ∀ t ∈ b, t.valid) :
    inflateR (8 * (A ++ packBits (fixedEnc blocks) ++ C).toArray.size)
        (inpOfBytes (A ++ packBits (fixedEnc blocks) ++ C).toArray) (8 * A.length)
      = .ok (expand #[] blocks, 8 * A.length + (fixedEnc blocks).length) := by
  unfold inflateR
  have hb := fixedEnc_bounds blocks
  have hsz : (fixedEnc blocks).length ≤ 8 * (A ++ packBits (fixedEnc blocks) ++ C).toArray.size := by
    simp [packBits_length]; omega
  apply inflateBlocks_fixedEnc _ blocks _ #[] _ _ hne
  · intro b hbm
    exact ⟨hv b hbm, by have := hb.2 b hbm; omega⟩
  · omega
  · exact carries_packed A C (fixedEnc blocks)

/-- C13 (bare RFC 1951 stream, fixed-Huffman blocks): decodes to the expansion of its symbols -/
theorem C13_inflateRaw_fixed (blocks : List (List Tok)) (hne : blocks ≠ []) (hv : ∀ b ∈ blocks, ∀ t ∈ b, t.valid) :
    inflateRaw (packBits (fixedEnc blocks)) = some (expand #[] blocks).toList := by
  have h := inflateR_fixed [] [] blocks hne hv
  simp only [List.nil_append, List.append_nil, List.length_nil, Nat.mul_zero, Nat.zero_add] at h
  unfold inflateRaw runR
  simp only []
  rw [h]

/-- C13 (gzip member around fixed-Huffman blocks; any MTIME, XFL, OS bytes) -/
theorem C13_gzip_fixed (blocks : List (List Tok)) (hne : blocks ≠ []) (hv : ∀ b ∈ blocks, ∀ t ∈ b, t.valid)
    (m0 m1 m2 m3 xfl os : UInt8) :
    gunzip (gzipWrap (packBits (fixedEnc blocks)) (expand #[] blocks) m0 m1 m2 m3 xfl os) = some (expand #[] blocks).toList := by
  have hinf := inflateR_fixed (gzHdr m0 m1 m2 m3 xfl os) (le32 (crc32 (expand #[] blocks)).toNat ++ le32 ((expand #[] blocks).size % 4294967296))
    blocks hne hv
  have hA : (gzHdr m0 m1 m2 m3 xfl os).length = 10 := by simp [gzHdr]
  rw [hA] at hinf
  have hw : gzipWrap (packBits (fixedEnc blocks)) (expand #[] blocks) m0 m1 m2 m3 xfl os
      = gzHdr m0 m1 m2 m3 xfl os ++ packBits (fixedEnc blocks) ++
        (le32 (crc32 (expand #[] blocks)).toNat ++ le32 ((expand #[] blocks).size % 4294967296)) := by
    simp [gzipWrap]
  rw [← hw] at hinf
  have h := gunzipR_wrap (packBits (fixedEnc blocks)) (expand #[] blocks) (8 * 10 + (fixedEnc blocks).length) m0 m1 m2 m3 xfl os
    (by rw [packBits_length]; omega) (by rw [packBits_length]; omega) hinf
  unfold gunzip runR
  simp only []
  rw [h]

/-- C13 (zlib stream around fixed-Huffman blocks) -/
theorem C13_zlib_fixed (blocks : List (List Tok)) (hne : blocks ≠ []) (hv : ∀ b ∈ blocks, ∀ t ∈ b, t.valid)
    (ad : Bytes) (had : ad.length = 4)
    (hsum : ad.foldl (fun acc b => acc * 256 + b.toNat) 0 = adler32 (expand #[] blocks)) :
    zlibDecode ([0x78, 0x01] ++ packBits (fixedEnc blocks) ++ ad) = some (expand #[] blocks).toList := by
  have hinf := inflateR_fixed [0x78, 0x01] ad blocks hne hv
  have hA : ([0x78, 0x01] : Bytes).length = 2 := rfl
  rw [hA] at hinf
  have h := zlibR_wrap (packBits (fixedEnc blocks)) (expand #[] blocks) (8 * 2 + (fixedEnc blocks).length) ad had hsum
    (by rw [packBits_length]; omega) (by rw [packBits_length]; omega) (by simpa using hinf)
  unfold zlibDecode runR
  simp only []
  rw [h]

/-- literal-only blocks expand to the concatenation of their data -/
theorem expand_literals (ds : List Bytes) (out : Array UInt8) :
    expand out (ds.map (List.map Tok.lit)) = out ++ ds.flatten.toArray := by
  induction ds generalizing out with
  | nil => simp [expand]
  | cons d rest ih =>
    simp only [expand, List.map_cons, List.foldl_cons] at ih ⊢
    rw [foldl_lits, ih]
    apply Array.ext'
    simp

theorem literals_valid (ds : List Bytes) : ∀ b ∈ ds.map (List.map Tok.lit), ∀ t ∈ b, t.valid := by
  intro b hb t ht
  simp only [List.mem_map] at hb
  obtain ⟨d, _, rfl⟩ := hb
  simp only [List.mem_map] at ht
  obtain ⟨x, _, rfl⟩ := ht
  trivial

/-- C13 (gzip, fixed-Huffman literal blocks): every body, cut into blocks in any way (empty blocks allowed),
    written literal by literal with the fixed code -/
theorem C13_gzip_fixed_literals (ds : List Bytes) (hne : ds ≠ []) (m0 m1 m2 m3 xfl os : UInt8) :
    gunzip (gzipWrap (packBits (fixedEnc (ds.map (List.map Tok.lit)))) ds.flatten.toArray m0 m1 m2 m3 xfl os)
      = some ds.flatten := by
  have h := C13_gzip_fixed (ds.map (List.map Tok.lit)) (by simpa using hne) (literals_valid ds) m0 m1 m2 m3 xfl os
  rw [expand_literals] at h
  simpa using h

/-- the non-vacuity check: "Hi" as one literal block is the five bytes zlib's `Z_FIXED` strategy would write -/
example : packBits (fixedEnc [[Tok.lit 72, Tok.lit 105]]) = [0xf3, 0xc8, 0x04, 0x00] := by decide +kernel

/-! ### `deflate` sniffing never mistakes a fixed-Huffman stream for zlib, and stacks of any correct codecs -/

theorem fixedEnc_shape : ∀ (blocks : List (List Tok)), blocks ≠ [] → ∃ f rest, fixedEnc blocks = f :: true :: false :: rest
  | [], h => absurd rfl h
  | [t], _ => ⟨true, _, rfl⟩
  | t :: t2 :: rest, _ => ⟨false, t.flatMap tokBits ++ litCode 256 ++ fixedEnc (t2 :: rest), by simp [fixedEnc, fixedBlockBits]⟩

theorem nibble_table : ∀ f a b c d e : Bool,
    ((f.toNat + 2 * true.toNat + 4 * false.toNat + 8 * a.toNat + 16 * b.toNat + 32 * c.toNat + 64 * d.toNat + 128 * e.toNat).toUInt8 &&& 0x0F) ≠ 8 := by
  decide

theorem packBits_head (f : Bool) (rest : List Bool) :
    ∃ b0 t, packBits (f :: true :: false :: rest) = b0 :: t ∧ b0 &&& 0x0F ≠ 8 := by
  have hlen : 0 < ((f :: true :: false :: rest).length + 7) / 8 := by simp only [List.length_cons]; omega
  obtain ⟨n, hn⟩ : ∃ n, ((f :: true :: false :: rest).length + 7) / 8 = n + 1 := ⟨_, (Nat.succ_pred_eq_of_pos hlen).symm⟩
  refine ⟨(byteVal (f :: true :: false :: rest) 0).toUInt8,
    (List.range n).map (fun j => (byteVal (f :: true :: false :: rest) (j + 1)).toUInt8), ?_, ?_⟩
  · unfold packBits
    rw [hn, List.range_succ_eq_map]
    simp only [List.map_cons, List.map_map]
    rfl
  · unfold byteVal bitAt
    simp only [Nat.mul_zero, Nat.zero_add, List.getD_cons_zero, List.getD_cons_succ]
    exact nibble_table f _ _ _ _ _

theorem sniff_fixed (blocks : List (List Tok)) (hne : blocks ≠ []) (hv : ∀ b ∈ blocks, ∀ t ∈ b, t.valid) :
    deflateSniff (packBits (fixedEnc blocks)) = some (expand #[] blocks).toList := by
  have hr := C13_inflateRaw_fixed blocks hne hv
  obtain ⟨f, rest, hshape⟩ := fixedEnc_shape blocks hne
  obtain ⟨b0, t, hp, hb0⟩ := packBits_head f rest
  rw [hshape] at hr ⊢
  rw [hp] at hr ⊢
  unfold deflateSniff
  cases t with
  | nil => exact hr
  | cons flg t =>
    simp only
    rw [if_neg]
    · exact hr
    · intro h; exact hb0 h.1

/-- a content coding as far as C13 is concerned: a name and an encoder -/
structure Codec where
  name : Bytes
  enc : Bytes → Bytes

/-- the encoder is undone by the decoder that `decode_body` picks for the name -/
def Codec.Ok (c : Codec) : Prop :=
  (c.name = kGzip ∧ ∀ x, gunzip (c.enc x) = some x) ∨ (c.name = kDeflate ∧ ∀ x, deflateSniff (c.enc x) = some x)

def encAll : List Codec → Bytes → Bytes
  | [], x => x
  | c :: cs, x => encAll cs (c.enc x)

theorem decodeRev_codecs (cs : List Codec) (h : ∀ c ∈ cs, c.Ok) (more : List Bytes) (y : Bytes) :
    decodeRev gunzip deflateSniff ((cs.map Codec.name).reverse ++ more) (encAll cs y)
      = decodeRev gunzip deflateSniff more y := by
  induction cs generalizing more y with
  | nil => simp [encAll]
  | cons c cs ih =>
    simp only [encAll, List.map_cons, List.reverse_cons, List.append_assoc]
    rw [ih (fun c hc => h c (by simp [hc]))]
    simp only [List.singleton_append, decodeRev]
    have hne : kDeflate ≠ kGzip := by decide
    rcases h c (by simp) with ⟨hn, hok⟩ | ⟨hn, hok⟩
    · simp [hn, hok]
    · simp [hn, hne, hok]

/-- C13 for stacks of arbitrary codecs: whatever encoders were used — any mix of compression levels and block
    structures — if each one is undone by its decoder, the stack is undone by `decode_body`'s loop, last coding
    first, and no coding is left over -/
theorem C13_stacks_any (cs : List Codec) (h : ∀ c ∈ cs, c.Ok) (x : Bytes) :
    decodeRev gunzip deflateSniff (cs.map Codec.name).reverse (encAll cs x) = some ([], x) := by
  have := decodeRev_codecs cs h [] x
  simpa [decodeRev] using this

/-- a tokenizer: any LZ77 front end, given by its output blocks and the fact that they expand to the data -/
structure Tokenizer where
  blocks : Bytes → List (List Tok)
  ne : ∀ x, blocks x ≠ []
  valid : ∀ x, ∀ b ∈ blocks x, ∀ t ∈ b, t.valid
  sound : ∀ x, expand #[] (blocks x) = x.toArray

def gzipFixed (T : Tokenizer) (m0 m1 m2 m3 xfl os : UInt8) : Codec :=
  ⟨kGzip, fun x => gzipWrap (packBits (fixedEnc (T.blocks x))) x.toArray m0 m1 m2 m3 xfl os⟩
def zlibFixed (T : Tokenizer) : Codec :=
  ⟨kDeflate, fun x => [0x78, 0x01] ++ packBits (fixedEnc (T.blocks x)) ++ be32 (adler32 x.toArray)⟩
def rawFixed (T : Tokenizer) : Codec := ⟨kDeflate, fun x => packBits (fixedEnc (T.blocks x))⟩

theorem gzipFixed_ok (T : Tokenizer) (m0 m1 m2 m3 xfl os : UInt8) : (gzipFixed T m0 m1 m2 m3 xfl os).Ok := by
  left
  refine ⟨rfl, fun x => ?_⟩
  have := C13_gzip_fixed (T.blocks x) (T.ne x) (T.valid x) m0 m1 m2 m3 xfl os
  rw [T.sound x] at this
  simpa [gzipFixed] using this

theorem zlibFixed_ok (T : Tokenizer) : (zlibFixed T).Ok := by
  right
  refine ⟨rfl, fun x => ?_⟩
  have hz := C13_zlib_fixed (T.blocks x) (T.ne x) (T.valid x) (be32 (adler32 x.toArray)) (by simp [be32])
    (by rw [T.sound x]; exact be32_spells _ (adler32_lt _))
  rw [T.sound x] at hz
  show deflateSniff ([0x78, 0x01] ++ packBits (fixedEnc (T.blocks x)) ++ be32 (adler32 x.toArray)) = some x
  unfold deflateSniff
  simp only [List.cons_append, List.nil_append]
  rw [if_pos (by decide)]
  simpa using hz

theorem rawFixed_ok (T : Tokenizer) : (rawFixed T).Ok := by
  right
  refine ⟨rfl, fun x => ?_⟩
  have := sniff_fixed (T.blocks x) (T.ne x) (T.valid x)
  rw [T.sound x] at this
  simpa [rawFixed] using this

/-- the literal-only tokenizer (one block): a witness that tokenizers exist for every body -/
def litTokenizer : Tokenizer where
  blocks x := [x.map Tok.lit]
  ne _ := by simp
  valid x := literals_valid [x]
  sound x := by
    have := expand_literals [x] #[]
    simpa using this

/-- the level-0 codecs of `C13_level0_stacks` are codecs in this sense too -/
theorem level0_ok : (⟨kGzip, encGzip0⟩ : Codec).Ok ∧ (⟨kDeflate, encZlib0⟩ : Codec).Ok ∧ (⟨kDeflate, encRaw0⟩ : Codec).Ok :=
  ⟨Or.inl ⟨rfl, gunzip_encGzip0⟩, Or.inr ⟨rfl, sniff_encZlib0⟩, Or.inr ⟨rfl, sniff_encRaw0⟩⟩

/-- C13 at `decode_body`, every stack of correct codecs: if the Content-Encoding tokens of `hs` are the names of
    the codecs `cs` (in order), the body encoded through `cs` comes back exactly, the Content-Encoding header is
    removed and Content-Length is the decoded length -/
theorem C13_decodeBody_stacks_any (hs : List Header) (cs : List Codec) (h : ∀ c ∈ cs, c.Ok)
    (htok : headerTokens hs kContentEncoding = cs.map Codec.name) (x : Bytes) :
    decodeBody gunzip deflateSniff hs (encAll cs x)
      = (setHeader (removeHeader hs kContentEncoding) kContentLength (natToDec x.length), some x) := by
  unfold decodeBody
  rw [htok, C13_stacks_any cs h]
  simp

/-- instance: any mix of level-0 and fixed-Huffman encoders (with any tokenizers) in any order -/
example (T1 T2 : Tokenizer) (hs : List Header) (x : Bytes)
    (htok : headerTokens hs kContentEncoding = [kGzip, kDeflate, kDeflate, kGzip]) :
    decodeBody gunzip deflateSniff hs (encAll [gzipFixed T1 0 0 0 0 0 3, rawFixed T2, ⟨kDeflate, encZlib0⟩, ⟨kGzip, encGzip0⟩] x)
      = (setHeader (removeHeader hs kContentEncoding) kContentLength (natToDec x.length), some x) :=
  C13_decodeBody_stacks_any hs [gzipFixed T1 0 0 0 0 0 3, rawFixed T2, ⟨kDeflate, encZlib0⟩, ⟨kGzip, encGzip0⟩] (by
    intro c hc
    simp only [List.mem_cons, List.not_mem_nil, or_false] at hc
    rcases hc with rfl | rfl | rfl | rfl
    · exact gzipFixed_ok T1 _ _ _ _ _ _
    · exact rawFixed_ok T2
    · exact level0_ok.2.1
    · exact level0_ok.1) (by rw [htok]; rfl) x
