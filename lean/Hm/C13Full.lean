import Hm.Blocks
import Hm.C13Fixed

/-! C13 for every DEFLATE stream: any sequence of stored, fixed-Huffman and dynamic-Huffman blocks — bare, or inside
    the gzip or zlib container, at any depth of a Content-Encoding stack — is decoded to the expansion of its
    blocks.  Consequently every encoder that writes a conforming stream whose expansion is the body ("any
    compression level, any block structure") is inverted by `decode_body`. -/

/-! ### the encoding only depends on the bit offset inside the byte -/

theorem storedBody_mod (k q : Nat) (d : Bytes) : storedBody (8 * k + q) d = storedBody q d := by
  unfold storedBody
  have : (8 * k + q) % 8 = q % 8 := by omega
  rw [this]

theorem Block.bits_mod (k q : Nat) (final : Bool) (b : Block) : b.bits (8 * k + q) final = b.bits q final := by
  cases b with
  | stored d =>
    simp only [Block.bits]
    rw [show 8 * k + q + 3 = 8 * k + (q + 3) by omega, storedBody_mod]
  | fixed toks => rfl
  | dyn h lens toks => rfl

theorem blocksBits_mod (k : Nat) : ∀ (blocks : List Block) (q : Nat), blocksBits (8 * k + q) blocks = blocksBits q blocks
  | [], _ => rfl
  | [b], q => by simp only [blocksBits, Block.bits_mod]
  | b :: b2 :: rest, q => by
    simp only [blocksBits, Block.bits_mod]
    rw [show 8 * k + q + (b.bits q false).length = 8 * k + (q + (b.bits q false).length) by omega,
      blocksBits_mod k (b2 :: rest)]

/-! ### fuel: a stream has fewer symbols and blocks than bits -/

theorem tok_bits_pos (lb db : Nat → List Bool) (t : Tok)
    (h : match t with | .lit b => 1 ≤ (lb b.toNat).length | .mat ls _ _ _ => 1 ≤ (lb (257 + ls)).length) :
    1 ≤ (tokBitsRaw lb db t).length := by
  cases t with
  | lit b => simpa [tokBitsRaw] using h
  | mat ls eb ds db' => simp only [tokBitsRaw, List.length_append]; simp only at h; omega

theorem toks_le_codes (lb db : Nat → List Bool) (toks : List Tok)
    (h : ∀ t ∈ toks, match t with | .lit b => 1 ≤ (lb b.toNat).length | .mat ls _ _ _ => 1 ≤ (lb (257 + ls)).length) :
    toks.length ≤ (codesBitsRaw lb db toks).length := by
  unfold codesBitsRaw
  induction toks with
  | nil => simp
  | cons t rest ih =>
    have := tok_bits_pos lb db t (h t (by simp))
    have := ih (fun t ht => h t (by simp [ht]))
    simp only [List.flatMap_cons, List.length_cons, List.length_append] at this ⊢; omega

theorem Block.symbols_le (b : Block) (hok : b.Ok) (p : Nat) (final : Bool) : b.symbols + 3 ≤ (b.bits p final).length := by
  cases b with
  | stored d => simp [Block.symbols, Block.bits]
  | fixed toks =>
    simp only [Block.symbols, Block.bits, List.length_cons]
    have := toks_le_codes litCode distCode toks (by
      intro t _
      cases t with
      | lit b => have := litCode_length_ge b.toNat; simp only; omega
      | mat ls _ _ _ => have := litCode_length_ge (257 + ls); simp only; omega)
    show toks.length + 3 ≤ (codesBitsRaw litCode distCode toks).length + 1 + 1 + 1
    omega
  | dyn h lens toks =>
    obtain ⟨hd, _, hv⟩ := hok
    simp only [Block.symbols, Block.bits, List.length_cons, List.length_append]
    have := toks_le_codes (canonBits (lens.take (h.hlit + 257))) (canonBits (lens.drop (h.hlit + 257))) toks (by
      intro t ht
      have hto := hv t ht
      cases t with
      | lit b =>
        simp only [Tok.okIn, dynBook] at hto
        simp only [canonBits, bitsMSB_length]; exact hto.2.1
      | mat ls _ _ _ =>
        simp only [Tok.okIn, dynBook] at hto
        simp only [canonBits, bitsMSB_length]; exact hto.2.2.2.2.1.2.1)
    unfold dynCodes
    omega

theorem blocksBits_bounds : ∀ (blocks : List Block) (p : Nat), (∀ b ∈ blocks, b.Ok) →
    blocks.length ≤ (blocksBits p blocks).length ∧ ∀ b ∈ blocks, b.symbols < (blocksBits p blocks).length
  | [], _, _ => by simp [blocksBits]
  | [b], p, hok => by
    have := b.symbols_le (hok b (by simp)) p true
    simp only [blocksBits, List.length_singleton, List.mem_singleton]
    exact ⟨by omega, fun x hx => by subst hx; omega⟩
  | b :: b2 :: rest, p, hok => by
    have ih := blocksBits_bounds (b2 :: rest) (p + (b.bits p false).length) (fun x hx => hok x (by simp [hx]))
    have := b.symbols_le (hok b (by simp)) p false
    simp only [blocksBits, List.length_cons, List.length_append, List.mem_cons] at ih ⊢
    refine ⟨by omega, ?_⟩
    intro x hx
    rcases hx with rfl | hx
    · omega
    · have := ih.2 x hx; omega

/-! ### the three entry points -/

/-- inside any byte string that holds the packed stream at byte offset `|A|`, `inflateR` started there yields
    the expansion and stops after the last bit of the stream -/
theorem inflateR_blocks (A C : Bytes) (blocks : List Block) (hne : blocks ≠ []) (hok : ∀ b ∈ blocks, b.Ok) :
    inflateR (8 * (A ++ packBits (blocksBits 0 blocks) ++ C).toArray.size)
        (inpOfBytes (A ++ packBits (blocksBits 0 blocks) ++ C).toArray) (8 * A.length)
      = .ok (expandBlocks #[] blocks, 8 * A.length + (blocksBits 0 blocks).length) := by
  unfold inflateR
  have hb := blocksBits_bounds blocks 0 hok
  have hsz : (blocksBits 0 blocks).length ≤ 8 * (A ++ packBits (blocksBits 0 blocks) ++ C).toArray.size := by
    simp [packBits_length]; omega
  have hmod : blocksBits (8 * A.length) blocks = blocksBits 0 blocks := by
    have := blocksBits_mod A.length blocks 0
    simpa using this
  have := inflateBlocks_blocks (8 * (A ++ packBits (blocksBits 0 blocks) ++ C).toArray.size + 1) blocks
    (8 * (A ++ packBits (blocksBits 0 blocks) ++ C).toArray.size + 1) #[] (inpOfBytes (A ++ packBits (blocksBits 0 blocks) ++ C).toArray)
    (8 * A.length) hne
    (fun b hbm => ⟨hok b hbm, by have := hb.2 b hbm; omega⟩) (by omega)
    (by rw [hmod]; exact carries_packed A C (blocksBits 0 blocks))
  rw [hmod] at this
  exact this

/-- C13 (bare RFC 1951 stream): every well-formed sequence of blocks decodes to its expansion -/
theorem C13_inflateRaw_blocks (blocks : List Block) (hne : blocks ≠ []) (hok : ∀ b ∈ blocks, b.Ok) :
    inflateRaw (packBits (blocksBits 0 blocks)) = some (expandBlocks #[] blocks).toList := by
  have h := inflateR_blocks [] [] blocks hne hok
  simp only [List.nil_append, List.append_nil, List.length_nil, Nat.mul_zero, Nat.zero_add] at h
  unfold inflateRaw runR
  simp only []
  rw [h]

/-- C13 (gzip member; any MTIME, XFL, OS bytes) -/
theorem C13_gzip_blocks (blocks : List Block) (hne : blocks ≠ []) (hok : ∀ b ∈ blocks, b.Ok) (m0 m1 m2 m3 xfl os : UInt8) :
    gunzip (gzipWrap (packBits (blocksBits 0 blocks)) (expandBlocks #[] blocks) m0 m1 m2 m3 xfl os)
      = some (expandBlocks #[] blocks).toList := by
  have hinf := inflateR_blocks (gzHdr m0 m1 m2 m3 xfl os)
    (le32 (crc32 (expandBlocks #[] blocks)).toNat ++ le32 ((expandBlocks #[] blocks).size % 4294967296)) blocks hne hok
  have hA : (gzHdr m0 m1 m2 m3 xfl os).length = 10 := by simp [gzHdr]
  rw [hA] at hinf
  have hw : gzipWrap (packBits (blocksBits 0 blocks)) (expandBlocks #[] blocks) m0 m1 m2 m3 xfl os
      = gzHdr m0 m1 m2 m3 xfl os ++ packBits (blocksBits 0 blocks) ++
        (le32 (crc32 (expandBlocks #[] blocks)).toNat ++ le32 ((expandBlocks #[] blocks).size % 4294967296)) := by
    simp [gzipWrap]
  rw [← hw] at hinf
  have h := gunzipR_wrap (packBits (blocksBits 0 blocks)) (expandBlocks #[] blocks) (8 * 10 + (blocksBits 0 blocks).length)
    m0 m1 m2 m3 xfl os (by rw [packBits_length]; omega) (by rw [packBits_length]; omega) hinf
  unfold gunzip runR
  simp only []
  rw [h]

/-- C13 (zlib stream) -/
theorem C13_zlib_blocks (blocks : List Block) (hne : blocks ≠ []) (hok : ∀ b ∈ blocks, b.Ok)
    (ad : Bytes) (had : ad.length = 4)
    (hsum : ad.foldl (fun acc b => acc * 256 + b.toNat) 0 = adler32 (expandBlocks #[] blocks)) :
    zlibDecode ([0x78, 0x01] ++ packBits (blocksBits 0 blocks) ++ ad) = some (expandBlocks #[] blocks).toList := by
  have hinf := inflateR_blocks [0x78, 0x01] ad blocks hne hok
  have hA : ([0x78, 0x01] : Bytes).length = 2 := rfl
  rw [hA] at hinf
  have h := zlibR_wrap (packBits (blocksBits 0 blocks)) (expandBlocks #[] blocks) (8 * 2 + (blocksBits 0 blocks).length) ad had hsum
    (by rw [packBits_length]; omega) (by rw [packBits_length]; omega) (by simpa using hinf)
  unfold zlibDecode runR
  simp only []
  rw [h]

/-! ### `deflate` sniffing never mistakes a bare stream for zlib -/

theorem blocksBits_shape : ∀ (blocks : List Block), blocks ≠ [] →
    ∃ f b0 b1 rest, blocksBits 0 blocks = f :: b0 :: b1 :: rest ∧ ((b0 = false ∧ b1 = false) → rest.getD 0 false = false)
  | [], h => absurd rfl h
  | [b], _ => by
    cases b with
    | stored d => exact ⟨true, false, false, _, rfl, fun _ => by simp [storedBody, List.getD]⟩
    | fixed toks => exact ⟨true, true, false, _, rfl, fun h => by simp at h⟩
    | dyn h lens toks => exact ⟨true, false, true, _, rfl, fun h => by simp at h⟩
  | b :: b2 :: rest, _ => by
    cases b with
    | stored d =>
      refine ⟨false, false, false, storedBody (0 + 3) d ++ blocksBits (0 + ((Block.stored d).bits 0 false).length) (b2 :: rest),
        by simp [blocksBits, Block.bits], fun _ => ?_⟩
      simp [storedBody, List.getD]
    | fixed toks => exact ⟨false, true, false, _, by simp [blocksBits, Block.bits]; rfl, fun h => by simp at h⟩
    | dyn h lens toks => exact ⟨false, false, true, _, by simp [blocksBits, Block.bits]; rfl, fun h => by simp at h⟩

theorem nibble_table2 : ∀ f b0 b1 x b c d e : Bool, ((b0 = false ∧ b1 = false) → x = false) →
    ((f.toNat + 2 * b0.toNat + 4 * b1.toNat + 8 * x.toNat + 16 * b.toNat + 32 * c.toNat + 64 * d.toNat + 128 * e.toNat).toUInt8 &&& 0x0F) ≠ 8 := by
  decide

theorem packBits_head2 (f b0 b1 : Bool) (rest : List Bool) (hx : (b0 = false ∧ b1 = false) → rest.getD 0 false = false) :
    ∃ c0 t, packBits (f :: b0 :: b1 :: rest) = c0 :: t ∧ c0 &&& 0x0F ≠ 8 := by
  have hlen : 0 < ((f :: b0 :: b1 :: rest).length + 7) / 8 := by simp only [List.length_cons]; omega
  obtain ⟨n, hn⟩ : ∃ n, ((f :: b0 :: b1 :: rest).length + 7) / 8 = n + 1 := ⟨_, (Nat.succ_pred_eq_of_pos hlen).symm⟩
  refine ⟨(byteVal (f :: b0 :: b1 :: rest) 0).toUInt8,
    (List.range n).map (fun j => (byteVal (f :: b0 :: b1 :: rest) (j + 1)).toUInt8), ?_, ?_⟩
  · unfold packBits
    rw [hn, List.range_succ_eq_map]
    simp only [List.map_cons, List.map_map]
    rfl
  · unfold byteVal bitAt
    simp only [Nat.mul_zero, Nat.zero_add, List.getD_cons_zero, List.getD_cons_succ]
    exact nibble_table2 f b0 b1 _ _ _ _ _ hx

theorem sniff_blocks (blocks : List Block) (hne : blocks ≠ []) (hok : ∀ b ∈ blocks, b.Ok) :
    deflateSniff (packBits (blocksBits 0 blocks)) = some (expandBlocks #[] blocks).toList := by
  have hr := C13_inflateRaw_blocks blocks hne hok
  obtain ⟨f, b0, b1, rest, hshape, hx⟩ := blocksBits_shape blocks hne
  obtain ⟨c0, t, hp, hc0⟩ := packBits_head2 f b0 b1 rest hx
  rw [hshape] at hr ⊢
  rw [hp] at hr ⊢
  unfold deflateSniff
  cases t with
  | nil => exact hr
  | cons flg t =>
    simp only
    rw [if_neg]
    · exact hr
    · intro h; exact hc0 h.1

/-! ### every correct encoder is a codec -/

/-- a DEFLATE encoder: any function from bodies to block sequences that respects the format and whose blocks
    expand to the body (compression level, strategy, block splitting and table construction are its business) -/
structure Deflater where
  blocks : Bytes → List Block
  ne : ∀ x, blocks x ≠ []
  ok : ∀ x, ∀ b ∈ blocks x, b.Ok
  sound : ∀ x, expandBlocks #[] (blocks x) = x.toArray

def gzipOf (E : Deflater) (m0 m1 m2 m3 xfl os : UInt8) : Codec :=
  ⟨kGzip, fun x => gzipWrap (packBits (blocksBits 0 (E.blocks x))) x.toArray m0 m1 m2 m3 xfl os⟩
def zlibOf (E : Deflater) : Codec :=
  ⟨kDeflate, fun x => [0x78, 0x01] ++ packBits (blocksBits 0 (E.blocks x)) ++ be32 (adler32 x.toArray)⟩
def rawOf (E : Deflater) : Codec := ⟨kDeflate, fun x => packBits (blocksBits 0 (E.blocks x))⟩

theorem gzipOf_ok (E : Deflater) (m0 m1 m2 m3 xfl os : UInt8) : (gzipOf E m0 m1 m2 m3 xfl os).Ok := by
  left
  refine ⟨rfl, fun x => ?_⟩
  have := C13_gzip_blocks (E.blocks x) (E.ne x) (E.ok x) m0 m1 m2 m3 xfl os
  rw [E.sound x] at this
  simpa [gzipOf] using this

theorem zlibOf_ok (E : Deflater) : (zlibOf E).Ok := by
  right
  refine ⟨rfl, fun x => ?_⟩
  have hz := C13_zlib_blocks (E.blocks x) (E.ne x) (E.ok x) (be32 (adler32 x.toArray)) (by simp [be32])
    (by rw [E.sound x]; exact be32_spells _ (adler32_lt _))
  rw [E.sound x] at hz
  show deflateSniff ([0x78, 0x01] ++ packBits (blocksBits 0 (E.blocks x)) ++ be32 (adler32 x.toArray)) = some x
  unfold deflateSniff
  simp only [List.cons_append, List.nil_append]
  rw [if_pos (by decide)]
  simpa using hz

theorem rawOf_ok (E : Deflater) : (rawOf E).Ok := by
  right
  refine ⟨rfl, fun x => ?_⟩
  have := sniff_blocks (E.blocks x) (E.ne x) (E.ok x)
  rw [E.sound x] at this
  simpa [rawOf] using this

/-- **C13, in full for the model**: for every body, every sequence of codings over {gzip, deflate as zlib, deflate
    as bare stream}, each produced by *any* conforming DEFLATE encoder (any level, any block structure, any Huffman
    tables), `decode_body` returns exactly the body, removes Content-Encoding and sets Content-Length -/
theorem C13_decodeBody_every_encoder (hs : List Header) (cs : List Codec)
    (h : ∀ c ∈ cs, ∃ E : Deflater, (∃ m0 m1 m2 m3 xfl os, c = gzipOf E m0 m1 m2 m3 xfl os) ∨ c = zlibOf E ∨ c = rawOf E)
    (htok : headerTokens hs kContentEncoding = cs.map Codec.name) (x : Bytes) :
    decodeBody gunzip deflateSniff hs (encAll cs x)
      = (setHeader (removeHeader hs kContentEncoding) kContentLength (natToDec x.length), some x) := by
  apply C13_decodeBody_stacks_any hs cs _ htok x
  intro c hc
  obtain ⟨E, hE⟩ := h c hc
  rcases hE with ⟨m0, m1, m2, m3, xfl, os, rfl⟩ | rfl | rfl
  · exact gzipOf_ok E _ _ _ _ _ _
  · exact zlibOf_ok E
  · exact rawOf_ok E
