import Hm.BlockCheck
import Hm.C13Bytes

/-! Non-vacuity of the block theorems: a stream written by zlib 1.x (level 9, one `Z_FULL_FLUSH`) — a dynamic-Huffman
    block, an empty stored block and a fixed-Huffman block — has exactly the bits `blocksBits 0 exBlocks` followed by the padding of the last byte (`exBitList`, `ex_bytes`) for the
    block description below (recovered from the stream by tools/deflate_blocks.py), the description satisfies `Block.Ok`, and
    its expansion is the data.  All three facts are evaluated by the kernel. -/

def exData : Bytes := [97, 100, 99, 97, 98, 98, 98, 100, 97, 97, 100, 97, 99, 97, 98, 99, 97, 102, 101, 97, 97, 98, 101, 97, 97, 97, 97, 97, 97, 98, 97, 97, 97, 98, 97, 97, 100, 98, 98, 97, 103, 100, 97, 97, 99, 99, 101, 97, 100, 99, 97, 98, 100, 100, 98, 98, 97, 97, 100, 97, 72, 105, 33]

def exRaw : Bytes := [36, 138, 129, 9, 0, 48, 12, 194, 110, 141, 218, 237, 255, 15, 102, 153, 16, 144, 16, 98, 36, 5, 66, 159, 57, 3, 42, 59, 125, 34, 113, 91, 216, 195, 230, 89, 209, 254, 1, 0, 0, 255, 255, 243, 200, 84, 4, 0]

def exBlocks : List Block := [Block.dyn ⟨4, 10, 12, [0, 0, 3, 2, 0, 0, 0, 0, 0, 3, 0, 3, 0, 2, 0, 3], [ClSym.z11 86, ClSym.len 2, ClSym.len 3, ClSym.len 3, ClSym.len 3, ClSym.len 4, ClSym.len 5, ClSym.len 5, ClSym.z11 127, ClSym.z11 3, ClSym.len 5, ClSym.len 3, ClSym.len 4, ClSym.len 0, ClSym.len 5, ClSym.len 3, ClSym.len 0, ClSym.len 0, ClSym.len 2, ClSym.len 0, ClSym.len 0, ClSym.len 3, ClSym.len 0, ClSym.len 2, ClSym.len 0, ClSym.len 2]⟩ [0, 0, 0, 0, 0, 0, 0, 0, 0, 0, 0, 0, 0, 0, 0, 0, 0, 0, 0, 0, 0, 0, 0, 0, 0, 0, 0, 0, 0, 0, 0, 0, 0, 0, 0, 0, 0, 0, 0, 0, 0, 0, 0, 0, 0, 0, 0, 0, 0, 0, 0, 0, 0, 0, 0, 0, 0, 0, 0, 0, 0, 0, 0, 0, 0, 0, 0, 0, 0, 0, 0, 0, 0, 0, 0, 0, 0, 0, 0, 0, 0, 0, 0, 0, 0, 0, 0, 0, 0, 0, 0, 0, 0, 0, 0, 0, 0, 2, 3, 3, 3, 4, 5, 5, 0, 0, 0, 0, 0, 0, 0, 0, 0, 0, 0, 0, 0, 0, 0, 0, 0, 0, 0, 0, 0, 0, 0, 0, 0, 0, 0, 0, 0, 0, 0, 0, 0, 0, 0, 0, 0, 0, 0, 0, 0, 0, 0, 0, 0, 0, 0, 0, 0, 0, 0, 0, 0, 0, 0, 0, 0, 0, 0, 0, 0, 0, 0, 0, 0, 0, 0, 0, 0, 0, 0, 0, 0, 0, 0, 0, 0, 0, 0, 0, 0, 0, 0, 0, 0, 0, 0, 0, 0, 0, 0, 0, 0, 0, 0, 0, 0, 0, 0, 0, 0, 0, 0, 0, 0, 0, 0, 0, 0, 0, 0, 0, 0, 0, 0, 0, 0, 0, 0, 0, 0, 0, 0, 0, 0, 0, 0, 0, 0, 0, 0, 0, 0, 0, 0, 0, 0, 0, 0, 0, 0, 0, 0, 0, 0, 0, 0, 0, 0, 0, 0, 0, 5, 3, 4, 0, 5, 3, 0, 0, 2, 0, 0, 3, 0, 2, 0, 2] [Tok.lit 97, Tok.lit 100, Tok.lit 99, Tok.lit 97, Tok.lit 98, Tok.lit 98, Tok.lit 98, Tok.lit 100, Tok.lit 97, Tok.lit 97, Tok.lit 100, Tok.lit 97, Tok.mat 0 0 6 1, Tok.lit 99, Tok.lit 97, Tok.lit 102, Tok.lit 101, Tok.lit 97, Tok.lit 97, Tok.lit 98, Tok.mat 0 0 3 0, Tok.mat 1 0 0 0, Tok.lit 98, Tok.mat 3 0 3 0, Tok.lit 100, Tok.lit 98, Tok.lit 98, Tok.lit 97, Tok.lit 103, Tok.mat 0 0 10 1, Tok.lit 99, Tok.lit 99, Tok.lit 101, Tok.lit 97, Tok.mat 1 0 10 14, Tok.lit 100, Tok.mat 1 0 8 0, Tok.mat 0 0 10 15],
  Block.stored [],
  Block.fixed [Tok.lit 72, Tok.lit 105, Tok.lit 33]]

/-- the bits of `exRaw`, least significant first, without the padding of the last byte -/
def exBitList : List Bool := [false, false, true, false, false, true, false, false, false, true, false, true, false, false, false, true, true, false, false, false, false, false, false, true, true, false, false, true, false, false, false, false, false, false, false, false, false, false, false, false, false, false, false, false, true, true, false, false, false, false, true, true, false, false, false, false, false, true, false, false, false, false, true, true, false, true, true, true, false, true, true, false, true, false, true, true, false, false, false, true, false, true, false, true, true, false, true, true, true, false, true, true, false, true, true, true, true, true, true, true, true, true, true, true, true, true, true, true, false, false, false, false, false, true, true, false, false, true, true, false, true, false, false, true, true, false, false, true, false, false, false, false, true, false, false, false, false, false, false, false, true, false, false, true, false, false, false, false, true, false, false, false, false, true, false, false, false, true, true, false, false, false, true, false, false, true, false, false, true, false, true, false, false, false, false, false, false, true, false, false, false, false, true, false, true, true, true, true, true, false, false, true, true, false, false, true, true, true, false, false, true, true, false, false, false, false, false, false, false, true, false, true, false, true, false, false, true, true, false, true, true, true, false, false, true, false, true, true, true, true, true, false, false, true, false, false, false, true, false, false, true, false, false, false, true, true, true, false, true, true, false, true, true, false, true, false, false, false, false, true, true, false, true, true, true, true, false, false, false, false, true, true, false, true, true, false, false, true, true, true, true, false, false, true, true, false, true, false, true, false, false, false, true, false, true, true, false, true, true, true, true, true, true, true, true, false, false, false, false, false, false, false, false, false, false, false, false, false, false, false, false, false, false, false, false, false, false, false, true, true, true, true, true, true, true, true, true, true, true, true, true, true, true, true, true, true, false, false, true, true, true, true, false, false, false, true, false, false, true, true, false, false, true, false, true, false, true, false, false, false, true, false, false, false, false, false, false, false]

def exPad : List Bool := [false, false, false, false, false, false]

/-- the bits zlib wrote are the encoding of the block description -/
theorem ex_bits0 : blocksBits 0 exBlocks = exBitList := by decide +kernel

/-- the description respects the format -/
theorem ex_ok : exBlocks.all blockOkB = true := by decide +kernel

/-- and expands to the data -/
theorem ex_expand : (expandBlocks #[] exBlocks).toList = exData := by decide +kernel

/-- the bytes zlib wrote spell those bits and the padding of the last byte -/
theorem ex_bytes : byteBits exRaw = exBitList ++ exPad := by decide +kernel

/-- hence, by `C13_inflateRaw_bytes` (not by running the decoder), zlib's stream inflates to the data -/
theorem ex_inflate : inflateRaw exRaw = some exData := by
  have h := C13_inflateRaw_bytes exRaw exBlocks exPad (by decide) (fun b hb => blockOkB_sound b (List.all_eq_true.mp ex_ok b hb))
    (by rw [ex_bits0]; exact ex_bytes)
  rw [ex_expand] at h
  exact h
