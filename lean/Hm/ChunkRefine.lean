import Hm.ReqRefine
import Hm.ChunkSys

/-! `ChunkState.decode` (the transcription of src/chunked_body.rs with the reservation log, which the driver
    executes) and `chunkSys` (the step form the theorems C02 C04 C05 C09 C17 are about) agree: same verdict, error
    category, decoder state and bytes consumed, from every state, for every input of at most 2^30 bytes per call
    whose length plus the bytes already buffered stays below `isize::MAX` (the side conditions under which the
    instrumented model's `vecReserve` does not raise its capacity / 1 GiB markers). -/

def chunkPhase (ov : Bool) (t : Tree) (c : ChunkState) (rem : Bytes) : Out (PhaseOut ChunkState) :=
  match c.phase with
  | .chunkData => .ok (decodeData c rem)
  | .chunkSize => decodeSize ov t c rem
  | .chunkTerminator => decodeTerminator c rem
  | .trailer => decodeTrailer c rem

def cphaseRes : Out (PhaseOut ChunkState) → Res Fail ChunkState
  | .err c => .fail (.err c)
  | .panic k => .fail (.panic k)
  | .ok po => .ok po.internal po.st po.consumed

theorem cphase_refines (ov : Bool) (t : Tree) (hrep : t.repaired = true) (c : ChunkState) (rem : Bytes)
    (hcap : c.buffer.length + rem.length ≤ isizeMax) (hlen : rem.length ≤ 2 ^ 30) :
    cphaseRes (chunkPhase ov t c rem) = chunkStep c rem := by
  have htree : t = ⟨true⟩ := by cases h : t; simp [h] at hrep; simp [hrep]
  subst htree
  unfold chunkPhase chunkStep
  cases hph : c.phase with
  | chunkData =>
    simp only [decodeData, cdataStep, cphaseRes]
    by_cases h0 : c.needed - min rem.length c.needed = 0
    · simp [h0]
    · simp [h0]
  | chunkSize =>
    simp only [decodeSize, csizeStep]
    cases hf : findCrlf rem with
    | none => simp [cphaseRes]
    | some e =>
      simp only
      by_cases hv : validUtf8 (rem.take e) = true
      · simp only [hv, Bool.not_true, Bool.false_eq_true, if_false]
        cases hp : parseChunkSize ⟨true⟩ (rem.take e) with
        | none => simp [cphaseRes]
        | some n =>
          simp only [if_true]
          have hr : (vecReserve "chunk.buffer" c.buffer.length (min n (rem.length - (e + 2))) : Out Reserve)
              = .ok ⟨"chunk.buffer", c.buffer.length, min n (rem.length - (e + 2))⟩ := by
            unfold vecReserve
            have h1 : ¬ (c.buffer.length + min n (rem.length - (e + 2)) > isizeMax) := by omega
            have h2 : ¬ (min n (rem.length - (e + 2)) > 2 ^ 30) := by omega
            simp [h1, h2]
          simp [hr, bind, Outcome.bind, cphaseRes]
      · simp [hv, cphaseRes]
  | chunkTerminator =>
    simp only [decodeTerminator, ctermStep]
    match rem with
    | [] => simp [cphaseRes]
    | [b] => by_cases hb : b = CR <;> simp [hb, cphaseRes]
    | a :: b :: rest => by_cases hab : a = CR ∧ b = LF <;> simp [hab, cphaseRes]
  | trailer =>
    simp only [decodeTrailer, ctrailerStep]
    cases hp : Headers.parse none c.trailer rem with
    | error e => simp [liftH, bind, Outcome.bind, cphaseRes]
    | ok r =>
      obtain ⟨hs, st, n⟩ := r
      cases st <;> simp [liftH, bind, Outcome.bind, cphaseRes]

theorem decodeLoop_unfold (ov : Bool) (t : Tree) (fuel : Nat) (c : ChunkState) (raw : Bytes) (tc : Nat) (rs : List Reserve) :
    ChunkState.decodeLoop ov t (fuel + 1) c raw tc rs =
      Outcome.bind (chunkPhase ov t c (raw.drop tc)) (fun po =>
        match po.internal with
        | .completePart => ChunkState.decodeLoop ov t fuel po.st raw (tc + po.consumed) (rs ++ po.reserves)
        | .completeWhole => .ok { st := po.st, status := .complete, consumed := tc + po.consumed, reserves := rs ++ po.reserves }
        | .incomplete => .ok { st := po.st, status := .incomplete, consumed := tc + po.consumed, reserves := rs ++ po.reserves }) := by
  conv => lhs; unfold ChunkState.decodeLoop
  unfold chunkPhase
  cases hph : c.phase <;> rfl

/-- steps the decoder can still take: two per remaining byte, plus the rank of the phase, plus one -/
def chunkφ (c : ChunkState) (n : Nat) : Nat := 2 * n + chunkRank c.phase + 1

theorem chunkStep_buffer {c c' : ChunkState} {rem : Bytes} {i : Internal} {n : Nat}
    (h : chunkStep c rem = .ok i c' n) : c'.buffer.length + (rem.length - n) ≤ c.buffer.length + rem.length := by
  unfold chunkStep at h
  split at h
  · unfold cdataStep at h
    simp only at h
    split at h <;> (simp at h; obtain ⟨_, rfl, rfl⟩ := h; simp <;> omega)
  · unfold csizeStep at h
    split at h
    · simp at h; obtain ⟨_, rfl, rfl⟩ := h; simp
    · split at h
      · simp at h
      · split at h
        · simp at h
        · simp at h; obtain ⟨_, rfl, rfl⟩ := h; simp
  · unfold ctermStep at h
    split at h
    · simp at h; obtain ⟨_, rfl, rfl⟩ := h; simp
    · split at h
      · simp at h; obtain ⟨_, rfl, rfl⟩ := h; simp
      · simp at h
    · split at h
      · simp at h; obtain ⟨_, rfl, rfl⟩ := h; simp; omega
      · simp at h
  · unfold ctrailerStep at h
    split at h
    · simp at h
    · simp at h; obtain ⟨_, rfl, rfl⟩ := h; simp <;> omega
    · simp at h; obtain ⟨_, rfl, rfl⟩ := h; simp <;> omega

theorem chunkφ_dec {c c' : ChunkState} {rem : Bytes} {n : Nat}
    (h : chunkStep c rem = .ok .completePart c' n) : chunkφ c' (rem.length - n) < chunkφ c rem.length := by
  unfold chunkφ
  unfold chunkStep at h
  split at h
  · rename_i hph
    have := cdataStep_ok h
    have h3 := this.2.2.1 rfl
    rw [hph, h3]; simp [chunkRank]; omega
  · rename_i hph
    have := csizeStep_ok h
    have h2 := this.2.1 rfl
    rw [hph]
    have hr : chunkRank c'.phase ≤ 2 := by cases c'.phase <;> simp [chunkRank]
    generalize chunkRank c'.phase = r at hr ⊢
    simp [chunkRank]; omega
  · rename_i hph
    have := ctermStep_ok h
    obtain ⟨h2, h3⟩ := this.2.2.1 rfl
    rw [hph, h3]; simp [chunkRank]; omega
  · have := (ctrailerStep_ok h).2.1; simp at this

theorem decodeLoop_refines (ov : Bool) (t : Tree) (hrep : t.repaired = true) (raw : Bytes) (hlen : raw.length ≤ 2 ^ 30) :
    ∀ (fuel : Nat) (c : ChunkState) (tc : Nat) (rs : List Reserve),
      c.buffer.length + (raw.length - tc) ≤ isizeMax → chunkφ c (raw.length - tc) ≤ fuel →
      ∃ r, chunkSys.loop fuel c (raw.drop tc) tc = some r ∧
        outToPRes (ChunkState.decodeLoop ov t fuel c raw tc rs) = r := by
  intro fuel
  induction fuel with
  | zero => intro c tc rs _ hφ; simp [chunkφ] at hφ
  | succ fuel ih =>
    intro c tc rs hcap hφ
    rw [decodeLoop_unfold]
    have hdl : (raw.drop tc).length = raw.length - tc := by simp
    have hph := cphase_refines ov t hrep c (raw.drop tc) (by rw [hdl]; exact hcap) (by rw [hdl]; omega)
    conv => enter [1, r, 1, 1]; unfold Sys.loop
    rw [show chunkSys.step = chunkStep from rfl, ← hph]
    cases hx : chunkPhase ov t c (raw.drop tc) with
    | err e => exact ⟨_, rfl, by simp [Outcome.bind, outToPRes]⟩
    | panic k => exact ⟨_, rfl, by simp [Outcome.bind, outToPRes]⟩
    | ok po =>
      have hstep : chunkStep c (raw.drop tc) = .ok po.internal po.st po.consumed := by rw [← hph, hx]; rfl
      simp only [Outcome.bind, cphaseRes]
      cases hi : po.internal with
      | completePart =>
        simp only
        rw [hi] at hstep
        have hb := chunkStep_buffer hstep
        have hd := chunkφ_dec hstep
        have hle := chunkSys_lawful.le trivial (show chunkSys.step c (raw.drop tc) = _ from hstep)
        rw [hdl] at hb hd hle
        have e : raw.length - tc - po.consumed = raw.length - (tc + po.consumed) := by omega
        rw [e] at hb hd
        obtain ⟨r, hr1, hr2⟩ := ih po.st (tc + po.consumed) (rs ++ po.reserves) (by omega) (by omega)
        rw [List.drop_drop]
        exact ⟨r, hr1, hr2⟩
      | completeWhole => exact ⟨_, rfl, by simp [outToPRes]⟩
      | incomplete => exact ⟨_, rfl, by simp [outToPRes]⟩

/-- **`ChunkState.decode` and `chunkSys` agree** -/
theorem ChunkState.decode_refines (ov : Bool) (t : Tree) (hrep : t.repaired = true) (c : ChunkState) (raw : Bytes)
    (hcap : c.buffer.length + raw.length ≤ isizeMax) (hlen : raw.length ≤ 2 ^ 30) :
    outToPRes (ChunkState.decode ov t c raw) = chunkSys.parse c raw := by
  unfold ChunkState.decode Sys.parse
  have hφ : chunkφ c (raw.length - 0) ≤ 2 * raw.length + 4 := by
    unfold chunkφ
    have hr : chunkRank c.phase ≤ 2 := by cases c.phase <;> simp [chunkRank]
    omega
  obtain ⟨r, hr1, hr2⟩ := decodeLoop_refines ov t hrep raw hlen (2 * raw.length + 4) c 0 [] (by simpa using hcap) hφ
  simp only [List.drop_zero] at hr1
  rw [hr2]
  -- fuel irrelevance between 2n+4 and μ
  have L := chunkSys_lawful
  have hsome := Sys.loop_isSome L (f := chunkSys.μ c raw.length) (s := c) (rem := raw) (acc := 0) trivial (Nat.le_refl _)
  cases hl : chunkSys.loop (chunkSys.μ c raw.length) c raw 0 with
  | none => simp [hl] at hsome
  | some r' =>
    simp only
    by_cases hk : chunkSys.μ c raw.length ≤ 2 * raw.length + 4
    · have := Sys.loop_fuel_mono hl (2 * raw.length + 4 - chunkSys.μ c raw.length)
      rw [show chunkSys.μ c raw.length + (2 * raw.length + 4 - chunkSys.μ c raw.length) = 2 * raw.length + 4 by omega] at this
      rw [this] at hr1; exact (Option.some.inj hr1).symm
    · have := Sys.loop_fuel_mono hr1 (chunkSys.μ c raw.length - (2 * raw.length + 4))
      rw [show 2 * raw.length + 4 + (chunkSys.μ c raw.length - (2 * raw.length + 4)) = chunkSys.μ c raw.length by omega] at this
      rw [this] at hl; exact Option.some.inj hl
