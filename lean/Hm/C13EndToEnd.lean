import Hm.StoredGzip
import Hm.C13

/-! C13 end to end for the level-0 encoders: `decode_body`'s stack logic over the *modelled* decoders
    (gunzip; deflate with the zlib/raw sniffing of the repaired tree), for every body and every sequence
    of layers over {gzip, deflate (zlib), deflate (raw)} -/

/-! ### cutting a body into stored-block pieces -/

def piecesAux : Nat → Bytes → List Bytes
  | 0, x => [x]
  | f + 1, x => if x.length ≤ 65535 then [x] else x.take 65535 :: piecesAux f (x.drop 65535)

def pieces (x : Bytes) : List Bytes := piecesAux x.length x

theorem piecesAux_ne (f : Nat) (x : Bytes) : piecesAux f x ≠ [] := by
  cases f with
  | zero => simp [piecesAux]
  | succ f => unfold piecesAux; split <;> simp

theorem piecesAux_flatten (f : Nat) (x : Bytes) : (piecesAux f x).flatten = x := by
  induction f generalizing x with
  | zero => simp [piecesAux]
  | succ f ih =>
    unfold piecesAux
    split
    · simp
    · simp [ih]

theorem piecesAux_le (f : Nat) (x : Bytes) (hf : x.length ≤ f) : ∀ d ∈ piecesAux f x, d.length ≤ 65535 := by
  induction f generalizing x with
  | zero => intro d hd; simp [piecesAux] at hd; subst hd; omega
  | succ f ih =>
    unfold piecesAux
    split
    · intro d hd; simp at hd; subst hd; assumption
    · intro d hd
      simp only [List.mem_cons] at hd
      rcases hd with rfl | hd
      · simp; omega
      · exact ih _ (by simp; omega) d hd

theorem pieces_ok (x : Bytes) : pieces x ≠ [] ∧ (pieces x).flatten = x ∧ ∀ d ∈ pieces x, d.length ≤ 65535 :=
  ⟨piecesAux_ne _ _, piecesAux_flatten _ _, piecesAux_le _ _ (Nat.le_refl _)⟩

/-! ### Adler-32 fits four bytes -/

theorem adler_fold_lt (l : List UInt8) (ab : Nat × Nat) (h1 : ab.1 < 65521) (h2 : ab.2 < 65521) :
    (l.foldl (fun (ab : Nat × Nat) x => let a := (ab.1 + x.toNat) % 65521; (a, (ab.2 + a) % 65521)) ab).1 < 65521 ∧
    (l.foldl (fun (ab : Nat × Nat) x => let a := (ab.1 + x.toNat) % 65521; (a, (ab.2 + a) % 65521)) ab).2 < 65521 := by
  induction l generalizing ab with
  | nil => exact ⟨h1, h2⟩
  | cons x xs ih =>
    simp only [List.foldl_cons]
    exact ih _ (Nat.mod_lt _ (by omega)) (Nat.mod_lt _ (by omega))

theorem adler32_lt (bs : Array UInt8) : adler32 bs < 4294967296 := by
  unfold adler32
  rw [← Array.foldl_toList]
  have := adler_fold_lt bs.toList (1, 0) (by omega) (by omega)
  generalize (bs.toList.foldl _ (1, 0)) = r at this
  obtain ⟨a, b⟩ := r
  simp only at this ⊢
  omega

def be32 (n : Nat) : Bytes :=
  [(n / 16777216 % 256).toUInt8, (n / 65536 % 256).toUInt8, (n / 256 % 256).toUInt8, (n % 256).toUInt8]

theorem be32_spells (n : Nat) (h : n < 4294967296) : (be32 n).foldl (fun acc b => acc * 256 + b.toNat) 0 = n := by
  simp [be32]; omega

/-! ### the three level-0 encoders and the decoders of the repaired tree -/

def encGzip0 (x : Bytes) : Bytes :=
  gzHdr 0 0 0 0 0 255 ++ storedEnc (pieces x) ++ le32 (crc32 x.toArray).toNat ++ le32 (x.length % 4294967296)
def encZlib0 (x : Bytes) : Bytes := [0x78, 0x01] ++ storedEnc (pieces x) ++ be32 (adler32 x.toArray)
def encRaw0 (x : Bytes) : Bytes := storedEnc (pieces x)

/-- `deflate` as the repaired `coding.rs` undoes it: zlib if the first two bytes form a zlib header,
    else a bare deflate stream -/
def deflateSniff (b : Bytes) : Option Bytes :=
  match b with
  | cmf :: flg :: _ =>
    if cmf &&& 0x0F = 8 ∧ (cmf.toNat * 256 + flg.toNat) % 31 = 0 then zlibDecode b else inflateRaw b
  | _ => inflateRaw b

theorem gunzip_encGzip0 (x : Bytes) : gunzip (encGzip0 x) = some x := by
  obtain ⟨hne, hfl, hle⟩ := pieces_ok x
  have := C13_gzip_stored_blocks (pieces x) hne hle 0 0 0 0 0 255
  rw [hfl] at this
  exact this

theorem sniff_encZlib0 (x : Bytes) : deflateSniff (encZlib0 x) = some x := by
  obtain ⟨hne, hfl, hle⟩ := pieces_ok x
  have hz := C13_zlib_stored_blocks (pieces x) hne hle (be32 (adler32 x.toArray)) (by simp [be32])
    (by rw [hfl]; exact be32_spells _ (adler32_lt _))
  rw [hfl] at hz
  have hshape : ∃ t, encZlib0 x = 0x78 :: 0x01 :: t := ⟨storedEnc (pieces x) ++ be32 (adler32 x.toArray), rfl⟩
  obtain ⟨t, ht⟩ := hshape
  unfold deflateSniff
  rw [ht]
  simp only
  rw [if_pos (by decide), ← ht]
  exact hz

theorem storedEnc_head (ds : List Bytes) (hne : ds ≠ []) :
    ∃ b t, storedEnc ds = b :: t ∧ (b = 0 ∨ b = 1) := by
  match ds, hne with
  | [d], _ => exact ⟨1, _, rfl, Or.inr rfl⟩
  | d :: d' :: ds, _ => exact ⟨0, _, rfl, Or.inl rfl⟩

theorem sniff_encRaw0 (x : Bytes) : deflateSniff (encRaw0 x) = some x := by
  obtain ⟨hne, hfl, hle⟩ := pieces_ok x
  have hr := C13_inflateRaw_stored_blocks (pieces x) hne hle
  rw [hfl] at hr
  obtain ⟨b, t, hbt, hb⟩ := storedEnc_head (pieces x) hne
  unfold encRaw0 at *
  unfold deflateSniff
  rw [hbt] at hr ⊢
  cases t with
  | nil => exact hr
  | cons flg t =>
    simp only
    rw [if_neg]
    · exact hr
    · rcases hb with rfl | rfl <;> (intro h; exact absurd h.1 (by decide))

/-! ### mixed stacks -/

inductive Layer where | gzip | deflateZlib | deflateRaw

def Layer.name : Layer → Bytes
  | .gzip => kGzip | .deflateZlib => kDeflate | .deflateRaw => kDeflate

def Layer.enc : Layer → Bytes → Bytes
  | .gzip => encGzip0 | .deflateZlib => encZlib0 | .deflateRaw => encRaw0

/-- the codings applied in the order listed -/
def encLayers : List Layer → Bytes → Bytes
  | [], x => x
  | l :: ls, x => encLayers ls (l.enc x)

theorem decodeRev_layers (ls : List Layer) (more : List Bytes) (y : Bytes) :
    decodeRev gunzip deflateSniff ((ls.map Layer.name).reverse ++ more) (encLayers ls y)
      = decodeRev gunzip deflateSniff more y := by
  induction ls generalizing more y with
  | nil => simp [encLayers]
  | cons l ls ih =>
    simp only [encLayers, List.map_cons, List.reverse_cons, List.append_assoc]
    rw [ih]
    simp only [List.singleton_append, decodeRev]
    have hne : kDeflate ≠ kGzip := by decide
    cases l with
    | gzip => simp [Layer.name, Layer.enc, gunzip_encGzip0]
    | deflateZlib => simp [Layer.name, Layer.enc, hne, sniff_encZlib0]
    | deflateRaw => simp [Layer.name, Layer.enc, hne, sniff_encRaw0]

/-- C13, end to end over the modelled decoders, level-0 encoders: for **every** body (any size) and
    **every** sequence of layers over {gzip, deflate as zlib, deflate as bare stream}, undoing the
    Content-Encoding tokens from the last to the first returns exactly the body and keeps no token -/
theorem C13_level0_stacks (ls : List Layer) (x : Bytes) :
    decodeRev gunzip deflateSniff (ls.map Layer.name).reverse (encLayers ls x) = some ([], x) := by
  have := decodeRev_layers ls [] x
  simpa [decodeRev] using this
