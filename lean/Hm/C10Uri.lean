import Hm.C10Full
import Hm.UriLaws2

/-! C10 / C11 instantiated with the rhymuri model for origin-form targets with query and fragment -/

namespace Rhymuri

theorem isQF_table : ∀ n, n < 256 → (isQueryOrFragment n.toUInt8 = true → n ≠ 32 ∧ n ≠ 13 ∧ n < 128) := by decide +kernel

theorem isQF_ok (b : UInt8) (h : isQueryOrFragment b = true) : b ≠ SP ∧ b ≠ CR ∧ b < 128 := by
  have := isQF_table b.toNat b.toNat_lt (by simpa using h)
  refine ⟨?_, ?_, ?_⟩
  · intro hc; subst hc; exact this.1 rfl
  · intro hc; subst hc; exact this.2.1 rfl
  · exact UInt8.lt_iff_toNat_lt.mpr this.2.2

theorem encoded_ok (enc : UInt8 → Bool) (henc : ∀ b, enc b = true → b ≠ SP ∧ b ≠ CR ∧ b < 128) (s : Bytes) :
    ∀ b ∈ encodeElement enc s, b ≠ SP ∧ b ≠ CR ∧ b < 128 := by
  intro b hb
  rcases encode_bytes enc s b hb with h | rfl | h | h
  · exact henc b h
  · decide
  · have h1 := UInt8.le_iff_toNat_le.mp h.1; have h2 := UInt8.le_iff_toNat_le.mp h.2
    simp at h1 h2
    refine ⟨?_, ?_, ?_⟩
    · intro hc; subst hc; simp [SP] at h1
    · intro hc; subst hc; simp [CR] at h1
    · apply UInt8.lt_iff_toNat_lt.mpr; simp at h2 ⊢; omega
  · have h1 := UInt8.le_iff_toNat_le.mp h.1; have h2 := UInt8.le_iff_toNat_le.mp h.2
    simp at h1 h2
    refine ⟨?_, ?_, ?_⟩
    · intro hc; subst hc; simp [SP] at h1
    · intro hc; subst hc; simp [CR] at h1
    · apply UInt8.lt_iff_toNat_lt.mpr; simp at h2 ⊢; omega

/-- what `display` prints for an origin-form target is a non-empty text free of SP, CR and non-ASCII bytes -/
theorem display_origin_ok (r : List Bytes) (q f : Option Bytes) :
    display ⟨none, none, [] :: r, q, f⟩ ≠ [] ∧
    ∀ b ∈ display ⟨none, none, [] :: r, q, f⟩, b ≠ SP ∧ b ≠ CR ∧ b < 128 := by
  have hpath := display_path_ok r
  have hsplit : display ⟨none, none, [] :: r, q, f⟩ = display ⟨none, none, [] :: r, none, none⟩ ++ (queryPart q ++ fragmentPart f) := by
    unfold display
    cases q <;> cases f <;> simp [queryPart, fragmentPart]
  rw [hsplit]
  constructor
  · intro hc
    exact hpath.1 (List.append_eq_nil_iff.mp hc).1
  · intro b hb
    rw [List.mem_append, List.mem_append] at hb
    rcases hb with hb | hb | hb
    · exact hpath.2 b hb
    · cases q with
      | none => simp [queryPart] at hb
      | some q0 =>
        simp only [queryPart, List.singleton_append, List.mem_cons] at hb
        rcases hb with rfl | hb
        · decide
        · exact encoded_ok isQueryNoPlus (fun b h => isQF_ok b (isQueryNoPlus_sub b h)) q0 b hb
    · cases f with
      | none => simp [fragmentPart] at hb
      | some f0 =>
        simp only [fragmentPart, List.singleton_append, List.mem_cons] at hb
        rcases hb with rfl | hb
        · decide
        · exact encoded_ok isQueryOrFragment isQF_ok f0 b hb

/-- the asterisk form `*` (OPTIONS) obeys the URI law -/
theorem parse_display_star : parse (display ⟨none, none, [[42]], none, none⟩) = some ⟨none, none, [[42]], none, none⟩ := by
  decide +kernel

theorem display_star : display ⟨none, none, [[42]], none, none⟩ = [42] := by decide +kernel

end Rhymuri

/-- C10 (requests, rhymuri model, any limits): the asterisk-form target `*` round-trips -/
theorem C10_request_roundtrip_star (cfg : ReqCfg) (m : Bytes) (hs : List Header) (body tail : Bytes)
    (hm_ne : m ≠ []) (hm_sp : SP ∉ m) (hm_crlf : findCrlf m = none) (hm_utf : validUtf8 m = true)
    (hw : ∀ h ∈ hs, WfHeader h) (hfit : FitsLimit cfg.hl hs)
    (hframe : (∃ val, headerValue hs kContentLength = some val ∧ parseNumber ⟨true⟩ 10 val = some body.length) ∨
              (headerValue hs kContentLength = none ∧ body = [])) :
    let v : ReqValue rhymuriImpl := ⟨m, ⟨none, none, [[42]], none, none⟩, hs, body⟩
    overLimit cfg.rl (requestLineOf v).length = false →
    (∀ M, cfg.max = some M → (reqBytes v).length ≤ M ∧ M ≤ usizeMax) →
    ∃ st, (requestSys rhymuriImpl cfg).parse (Request.new rhymuriImpl) (reqBytes v ++ tail) = .ok .complete st (reqBytes v).length ∧
      st.method = m ∧ st.target = ⟨none, none, [[42]], none, none⟩ ∧ st.headers = hs ∧ st.body = body := by
  intro v hrl hmax
  have hd : rhymuriImpl.display v.target = [42] := Rhymuri.display_star
  exact (C10_request_roundtrip_limits cfg v hm_ne hm_sp hm_crlf hm_utf (by rw [hd]; simp)
    (by rw [hd]; intro b hb; simp at hb; subst hb; decide)
    Rhymuri.parse_display_star hw hfit hframe hrl hmax tail).2

/-- C10 (requests, rhymuri model, any limits): every origin-form target `/seg/…?query#fragment` — arbitrary bytes
    in every segment, in the query and in the fragment (first segment non-empty) — round-trips through
    `generate` and `parse` together with any method token, well-formed header list and matching body whose lines
    fit the configured limits -/
theorem C10_request_roundtrip_origin (cfg : ReqCfg) (m : Bytes) (r : List Bytes) (q f : Option Bytes)
    (hs : List Header) (body tail : Bytes)
    (hm_ne : m ≠ []) (hm_sp : SP ∉ m) (hm_crlf : findCrlf m = none) (hm_utf : validUtf8 m = true)
    (hr : ∃ x xs, r = x :: xs ∧ x ≠ [])
    (hw : ∀ h ∈ hs, WfHeader h) (hfit : FitsLimit cfg.hl hs)
    (hframe : (∃ val, headerValue hs kContentLength = some val ∧ parseNumber ⟨true⟩ 10 val = some body.length) ∨
              (headerValue hs kContentLength = none ∧ body = [])) :
    let v : ReqValue rhymuriImpl := ⟨m, ⟨none, none, [] :: r, q, f⟩, hs, body⟩
    overLimit cfg.rl (requestLineOf v).length = false →
    (∀ M, cfg.max = some M → (reqBytes v).length ≤ M ∧ M ≤ usizeMax) →
    ∃ st, (requestSys rhymuriImpl cfg).parse (Request.new rhymuriImpl) (reqBytes v ++ tail) = .ok .complete st (reqBytes v).length ∧
      st.method = m ∧ st.target = ⟨none, none, [] :: r, q, f⟩ ∧ st.headers = hs ∧ st.body = body := by
  intro v hrl hmax
  have hok := Rhymuri.display_origin_ok r q f
  exact (C10_request_roundtrip_limits cfg v hm_ne hm_sp hm_crlf hm_utf hok.1 hok.2
    (Rhymuri.parse_display_origin r hr q f) hw hfit hframe hrl hmax tail).2

/-- C11 (requests, rhymuri model): whatever was accepted with an origin-form target (any query, any fragment)
    re-serialises to a request that parses back to the same message -/
theorem C11_request_reparse_origin (cfg cfg' : ReqCfg) {s : Bytes} {st : ReqState rhymuriImpl} {n : Nat}
    (h : (requestSys rhymuriImpl cfg).parse (Request.new rhymuriImpl) s = .ok .complete st n)
    (r : List Bytes) (hr : ∃ x xs, r = x :: xs ∧ x ≠ []) (q f : Option Bytes)
    (ht : st.target = (⟨none, none, [] :: r, q, f⟩ : Uri))
    (hhl : cfg'.hl = none)
    (hrl : overLimit cfg'.rl (st.method ++ [SP] ++ Rhymuri.display st.target ++ [SP] ++ http11).length = false)
    (hmax : ∀ M, cfg'.max = some M →
      (st.method ++ [SP] ++ Rhymuri.display st.target ++ [SP] ++ http11).length + 2 + (genBlock st.headers).length + st.body.length ≤ M ∧ M ≤ usizeMax)
    (tail : Bytes) :
    let g := (st.method ++ [SP] ++ Rhymuri.display st.target ++ [SP] ++ http11) ++ CRLF ++ genBlock st.headers ++ st.body
    ∃ st', (requestSys rhymuriImpl cfg').parse (Request.new rhymuriImpl) (g ++ tail) = .ok .complete st' g.length ∧
      st'.method = st.method ∧ st'.target = st.target ∧ st'.headers = st.headers ∧ st'.body = st.body := by
  have hok := Rhymuri.display_origin_ok r q f
  refine C11_request_reparse cfg cfg' h ?_ ?_ ?_ hhl hrl hmax tail
  · show Rhymuri.parse (Rhymuri.display st.target) = some st.target
    rw [ht]; exact Rhymuri.parse_display_origin r hr q f
  · show Rhymuri.display st.target ≠ []
    rw [ht]; exact hok.1
  · show ∀ b ∈ Rhymuri.display st.target, b ≠ SP ∧ b ≠ CR ∧ b < 128
    rw [ht]; exact hok.2
