import Hm.C03Grammar
import Hm.ReqProps

/-! C03, whole message (soundness, repaired tree): what `parse` reports complete in one call has a first
    line — the bytes before the first CRLF — that is a request line, then a header block the header
    parser accepts, then exactly the declared number of body bytes (none without Content-Length);
    and the extracted fields are those elements -/

variable {u : UriImpl}

theorem rlStep_cp_inv {cfg : ReqCfg} {s s' : ReqState u} {rem : Bytes} {c : Nat}
    (h : rlStep u cfg s rem = .ok .completePart s' c) :
    ∃ e, findCrlf rem = some e ∧ c = e + 2 ∧ validUtf8 (rem.take e) = true ∧ overLimit cfg.rl e = false ∧
      parseRequestLine u (rem.take e) = .ok (s'.method, s'.target) ∧
      s'.phase = .headers ∧ s'.headers = s.headers ∧ s'.body = s.body := by
  unfold rlStep at h
  cases hf : findCrlf rem with
  | none => simp only [hf] at h; split at h <;> (try split at h) <;> simp at h
  | some e =>
    simp only [hf] at h
    by_cases hl : overLimit cfg.rl e = true
    · simp [hl] at h
    · rw [if_neg hl] at h
      by_cases hv : validUtf8 (rem.take e) = true
      · simp only [hv, Bool.not_true, Bool.false_eq_true, if_false] at h
        cases hc : countR cfg.max s.totalBytes (e + 2) with
        | error f => simp [hc] at h
        | ok t =>
          simp only [hc] at h
          cases hp : parseRequestLine u (rem.take e) with
          | error c0 => simp [hp] at h
          | ok r =>
            obtain ⟨m, tg⟩ := r
            simp only [hp, Res.ok.injEq, true_and] at h
            obtain ⟨rfl, rfl⟩ := h
            exact ⟨e, rfl, rfl, hv, by simpa using hl, hp, rfl, rfl, rfl⟩
      · simp [hv] at h

theorem hdrStep_complete_inv {cfg : ReqCfg} {s s' : ReqState u} {rem : Bytes} {c : Nat} {i : Internal}
    (h : hdrStep cfg s rem = .ok i s' c) (hi : i ≠ .incomplete) :
    Headers.parse cfg.hl s.headers (stripDanglingCr rem) = .ok (s'.headers, .complete, c) ∧
    s'.method = s.method ∧ s'.target = s.target ∧ s'.body = s.body ∧
    ((i = .completeWhole ∧ headerValue s'.headers kContentLength = none) ∨
     (i = .completePart ∧ ∃ v cl, headerValue s'.headers kContentLength = some v ∧
        parseNumber ⟨true⟩ 10 v = some cl ∧ s'.phase = .body cl)) := by
  unfold hdrStep at h
  cases hp : Headers.parse cfg.hl s.headers (stripDanglingCr rem) with
  | error e => simp [hp] at h
  | ok r =>
    obtain ⟨hs, st, c0⟩ := r
    simp only [hp] at h
    cases hc : countR cfg.max s.totalBytes c0 with
    | error f => simp [hc] at h
    | ok t =>
      simp only [hc] at h
      cases st with
      | incomplete =>
        simp only at h
        split at h
        · simp at h
        · simp at h; exact absurd h.1.symm hi
      | complete =>
        simp only at h
        unfold afterHeaders at h
        cases hv : headerValue hs kContentLength with
        | none =>
          simp only [hv, Res.ok.injEq] at h
          obtain ⟨rfl, rfl, rfl⟩ := h
          exact ⟨rfl, rfl, rfl, rfl, Or.inl ⟨rfl, hv⟩⟩
        | some v =>
          simp only [hv] at h
          cases hn : parseNumber ⟨true⟩ 10 v with
          | none => simp [hn] at h
          | some cl =>
            simp only [hn] at h
            cases hc2 : countR cfg.max t cl with
            | error f => simp [hc2] at h
            | ok t2 =>
              simp only [hc2, Res.ok.injEq] at h
              obtain ⟨rfl, rfl, rfl⟩ := h
              exact ⟨rfl, rfl, rfl, rfl, Or.inr ⟨rfl, v, cl, hv, hn, rfl⟩⟩

theorem bodyStep_cw_inv {cfg : ReqCfg} {s s' : ReqState u} {rem : Bytes} {n c : Nat}
    (h : bodyStep cfg s rem n = .ok .completeWhole s' c) (hb : s.body = []) :
    c = n ∧ n ≤ rem.length ∧ s'.body = rem.take n ∧ s'.method = s.method ∧ s'.target = s.target ∧
      s'.headers = s.headers := by
  unfold bodyStep at h
  simp only [hb, List.length_nil, Nat.sub_zero, List.nil_append] at h
  split at h
  · simp at h
  · split at h
    · rename_i hlen
      simp only [Res.ok.injEq, true_and] at h
      obtain ⟨rfl, rfl⟩ := h
      exact ⟨rfl, hlen, rfl, rfl, rfl, rfl⟩
    · split at h <;> simp at h

/-- C03 (whole message, soundness) -/
theorem C03_accept_sound (u : UriImpl) (cfg : ReqCfg) {s : Bytes} {st : ReqState u} {n : Nat}
    (h : (requestSys u cfg).parse (Request.new u) s = .ok .complete st n) :
    ∃ e c, findCrlf s = some e ∧ validUtf8 (s.take e) = true ∧ overLimit cfg.rl e = false ∧
      parseRequestLine u (s.take e) = .ok (st.method, st.target) ∧
      Headers.parse cfg.hl [] (stripDanglingCr (s.drop (e + 2))) = .ok (st.headers, .complete, c) ∧
      ((headerValue st.headers kContentLength = none ∧ st.body = [] ∧ n = e + 2 + c) ∨
       (∃ v cl, headerValue st.headers kContentLength = some v ∧ parseNumber ⟨true⟩ 10 v = some cl ∧
          st.body = ((s.drop (e + 2)).drop c).take cl ∧ st.body.length = cl ∧ n = e + 2 + c + cl)) := by
  unfold Sys.parse at h
  have hμ : (requestSys u cfg).μ (Request.new u) s.length = 3 := rfl
  rw [hμ] at h
  -- first iteration: the request line
  unfold Sys.loop at h
  cases h1 : (requestSys u cfg).step (Request.new u) s with
  | fail e => simp [h1] at h
  | ok i s1 c1 =>
    have h1' : rlStep u cfg (Request.new u) s = .ok i s1 c1 := h1
    cases i with
    | incomplete => simp [h1] at h
    | completeWhole => have := rlStep_completePart h1' (by simp); simp at this
    | completePart =>
      simp only [h1] at h
      obtain ⟨e, hf, rfl, hv, hrl, hp, hph1, hh1, hb1⟩ := rlStep_cp_inv h1'
      -- second iteration: the header block
      unfold Sys.loop at h
      cases h2 : (requestSys u cfg).step s1 (s.drop (e + 2)) with
      | fail e2 => simp [h2] at h
      | ok i2 s2 c2 =>
        have h2' : hdrStep cfg s1 (s.drop (e + 2)) = .ok i2 s2 c2 := by
          have : reqStep u cfg s1 (s.drop (e + 2)) = .ok i2 s2 c2 := h2
          unfold reqStep at this; rw [hph1] at this; exact this
        cases i2 with
        | incomplete => simp [h2] at h
        | completeWhole =>
          simp only [h2, Option.some.injEq, PRes.ok.injEq, true_and] at h
          obtain ⟨rfl, rfl⟩ := h
          obtain ⟨hhp, hm, ht, hb, hcase⟩ := hdrStep_complete_inv h2' (by simp)
          rw [hh1] at hhp
          rcases hcase with ⟨_, hnone⟩ | ⟨hcp, _⟩
          · refine ⟨e, c2, hf, hv, hrl, by rw [hm, ht]; exact hp, hhp, Or.inl ⟨hnone, by rw [hb, hb1]; rfl, by omega⟩⟩
          · simp at hcp
        | completePart =>
          simp only [h2] at h
          obtain ⟨hhp, hm, ht, hb, hcase⟩ := hdrStep_complete_inv h2' (by simp)
          rw [hh1] at hhp
          rcases hcase with ⟨hcw, _⟩ | ⟨_, v, cl, hval, hnum, hph2⟩
          · simp at hcw
          · -- third iteration: the body
            unfold Sys.loop at h
            simp only [List.drop_drop] at h
            cases h3 : (requestSys u cfg).step s2 (s.drop (e + 2 + c2)) with
            | fail e3 => simp [h3] at h
            | ok i3 s3 c3 =>
              have h3' : bodyStep cfg s2 ((s.drop (e + 2)).drop c2) cl = .ok i3 s3 c3 := by
                have : reqStep u cfg s2 (s.drop (e + 2 + c2)) = .ok i3 s3 c3 := h3
                unfold reqStep at this; rw [hph2] at this
                rw [List.drop_drop]; exact this
              cases i3 with
              | incomplete => simp [h3] at h
              | completePart => simp only [h3] at h; simp [Sys.loop] at h
              | completeWhole =>
                simp only [h3, Option.some.injEq, PRes.ok.injEq, true_and] at h
                obtain ⟨rfl, rfl⟩ := h
                have hb2 : s2.body = [] := by rw [hb, hb1]; rfl
                obtain ⟨rfl, hlen, hbody, hm3, ht3, hh3⟩ := bodyStep_cw_inv h3' hb2
                refine ⟨e, c2, hf, hv, hrl, by rw [hm3, ht3, hm, ht]; exact hp, by rw [hh3]; exact hhp, Or.inr ⟨v, c3, ?_, hnum, hbody, ?_, by omega⟩⟩
                · rw [hh3]; exact hval
                · rw [hbody, List.length_take]; omega
