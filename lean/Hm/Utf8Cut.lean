import Hm.AsciiUtf8

/-! UTF-8 validity survives a cut at an ASCII byte: if `M ++ a :: R` is valid and `a < 0x80`, then `M` and `R` are
    valid (against core's declarative `ByteArray.IsValidUTF8`) -/

def encL (cs : List Char) : Bytes := cs.flatMap String.utf8EncodeChar

theorem isValid_iff_encL (bs : Bytes) : (ByteArray.mk bs.toArray).IsValidUTF8 ↔ ∃ cs, encL cs = bs := by
  constructor
  · rintro ⟨m, hm⟩
    refine ⟨m, ?_⟩
    have := congrArg (fun b => b.data.toList) hm
    simp only [List.utf8Encode, List.toList_data_toByteArray] at this
    simpa [encL] using this.symm
  · rintro ⟨cs, rfl⟩
    refine ⟨cs, ?_⟩
    apply ByteArray.ext
    simp [List.utf8Encode, encL]

theorem ascii_isFirstByte_table : ∀ n, n < 128 → (n.toUInt8 &&& 0x80 = 0) := by decide +kernel

theorem ascii_isFirstByte (a : UInt8) (h : a < 128) : a.IsUTF8FirstByte := by
  left
  have hlt : a.toNat < 128 := by have := UInt8.lt_iff_toNat_lt.mp h; simpa using this
  have := ascii_isFirstByte_table a.toNat hlt
  simpa using this

theorem encL_cut (cs : List Char) : ∀ (M : Bytes) (a : UInt8) (R : Bytes), a < 128 → encL cs = M ++ a :: R →
    ∃ cs1, encL cs1 = M := by
  induction cs with
  | nil => intro M a R _ h; simp [encL] at h
  | cons c cs ih =>
    intro M a R ha h
    by_cases hM : M = []
    · exact ⟨[], by simp [encL, hM]⟩
    · have hE : encL (c :: cs) = String.utf8EncodeChar c ++ encL cs := by simp [encL]
      rw [hE] at h
      by_cases hle : (String.utf8EncodeChar c).length ≤ M.length
      · -- the first character lies inside `M`
        have hM' : M = String.utf8EncodeChar c ++ M.drop (String.utf8EncodeChar c).length := by
          have h1 := congrArg (List.take (String.utf8EncodeChar c).length) h
          rw [List.take_left', List.take_append_of_le_length hle] at h1
          · have h3 : M = M.take (String.utf8EncodeChar c).length ++ M.drop (String.utf8EncodeChar c).length :=
              (List.take_append_drop _ _).symm
            rw [← h1] at h3
            exact h3
          · rfl
        have hrest : encL cs = M.drop (String.utf8EncodeChar c).length ++ a :: R := by
          have h2 := congrArg (List.drop (String.utf8EncodeChar c).length) h
          rw [List.drop_left', List.drop_append_of_le_length hle] at h2
          · exact h2
          · rfl
        obtain ⟨cs1, hcs1⟩ := ih _ a R ha hrest
        refine ⟨c :: cs1, ?_⟩
        rw [hM']
        simp [encL] at hcs1 ⊢
        rw [hcs1]
      · -- the ASCII byte would sit inside a multi-byte character, at an index ≥ 1
        exfalso
        have hlt : M.length < (String.utf8EncodeChar c).length := by omega
        have hpos : 0 < M.length := by
          cases M with
          | nil => exact absurd rfl hM
          | cons _ _ => simp
        have h1 := congrArg (fun l => l[M.length]?) h
        simp only [List.getElem?_append_left hlt] at h1
        have h2 : (M ++ a :: R)[M.length]? = some a := by
          rw [List.getElem?_append_right (Nat.le_refl _)]; simp
        rw [h2] at h1
        have hget : (String.utf8EncodeChar c)[M.length]'hlt = a := by
          rw [List.getElem?_eq_getElem hlt] at h1; exact Option.some.inj h1
        have hfb : ((String.utf8EncodeChar c)[M.length]'hlt).IsUTF8FirstByte := by rw [hget]; exact ascii_isFirstByte a ha
        have := (UInt8.isUTF8FirstByte_getElem_utf8EncodeChar (c := c) (i := M.length) (hi := hlt)).mp hfb
        omega

/-- the prefix before an ASCII byte of a valid UTF-8 string is valid -/
theorem validUtf8_cut_left (M : Bytes) (a : UInt8) (R : Bytes) (ha : a < 128)
    (h : validUtf8 (M ++ a :: R) = true) : validUtf8 M = true := by
  unfold validUtf8 at h ⊢
  rw [ByteArray.validateUTF8_eq_true_iff] at h ⊢
  obtain ⟨cs, hcs⟩ := (isValid_iff_encL _).mp h
  obtain ⟨cs1, hcs1⟩ := encL_cut cs M a R ha hcs
  exact (isValid_iff_encL _).mpr ⟨cs1, hcs1⟩

/-- the suffix after an ASCII byte of a valid UTF-8 string is valid -/
theorem validUtf8_cut_right (M : Bytes) (a : UInt8) (R : Bytes) (ha : a < 128)
    (h : validUtf8 (M ++ a :: R) = true) : validUtf8 R = true := by
  have hM := validUtf8_cut_left M a R ha h
  unfold validUtf8 at h hM ⊢
  rw [ByteArray.validateUTF8_eq_true_iff] at h hM ⊢
  obtain ⟨cs, hcs⟩ := (isValid_iff_encL _).mp h
  obtain ⟨cs1, hcs1⟩ := (isValid_iff_encL _).mp hM
  -- cs1 is a prefix of cs (uniqueness of decoding), so the rest of cs spells `a :: R`
  have hpre : cs1 <+: cs := by
    apply List.isPrefix_of_utf8Encode_append_eq_utf8Encode (ByteArray.mk (a :: R).toArray)
    apply ByteArray.ext
    have e1 : cs1.utf8Encode.data = (encL cs1).toArray := by simp [List.utf8Encode, encL]
    have e2 : cs.utf8Encode.data = (encL cs).toArray := by simp [List.utf8Encode, encL]
    simp only [ByteArray.data_append, e1, e2, hcs1, hcs]
    simp
  obtain ⟨cs2, rfl⟩ := hpre
  have hsplit : encL (cs1 ++ cs2) = encL cs1 ++ encL cs2 := by simp [encL]
  rw [hsplit, hcs1] at hcs
  have h2 : encL cs2 = a :: R := List.append_cancel_left hcs
  -- peel the ASCII byte
  have hv : (ByteArray.mk (a :: R).toArray).IsValidUTF8 := (isValid_iff_encL _).mpr ⟨cs2, h2⟩
  exact (isValidUTF8_ascii_cons_iff a ha R).mp hv

/-- C06 (string slicing): wherever the crate slices a `&str` at the position of an ASCII delimiter it has just
    found with `find` — `&s[..i]` and `&s[i + 1..]` in request.rs, response.rs, chunked_body.rs and coding.rs — both
    parts are valid UTF-8, i.e. `i` and `i + 1` are character boundaries and the slice cannot trap -/
theorem C06_slice_at_ascii_delimiter (s : Bytes) (a : UInt8) (i : Nat) (ha : a < 128)
    (hs : validUtf8 s = true) (hf : s.idxOf? a = some i) :
    validUtf8 (s.take i) = true ∧ validUtf8 (s.drop (i + 1)) = true := by
  have hsplit : s = s.take i ++ a :: s.drop (i + 1) := by
    have hi : i < s.length := by
      have := List.idxOf?_eq_some_iff.mp hf
      obtain ⟨hlt, _⟩ := this; exact hlt
    have hget : s[i] = a := by
      have := List.idxOf?_eq_some_iff.mp hf
      exact this.2.1
    rw [← hget]
    exact (List.take_append_drop i s).symm.trans (by rw [List.drop_eq_getElem_cons hi])
  rw [hsplit] at hs
  exact ⟨validUtf8_cut_left _ a _ ha hs, validUtf8_cut_right _ a _ ha hs⟩
