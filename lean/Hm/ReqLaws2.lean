import Hm.ReqLaws1

variable {u : UriImpl}

/-! ### helpers -/

theorem strip_length_le (b : Bytes) : (stripDanglingCr b).length ≤ b.length := by
  unfold stripDanglingCr; split <;> simp

theorem strip_length_ge (b : Bytes) : b.length ≤ (stripDanglingCr b).length + 1 := by
  unfold stripDanglingCr; split <;> simp <;> omega

theorem strip_of_last_ne {b : Bytes} (h : b.getLast? ≠ some CR) : stripDanglingCr b = b := by
  unfold stripDanglingCr; simp [h]

theorem strip_length_of_last {b : Bytes} (h : b.getLast? = some CR) : (stripDanglingCr b).length + 1 = b.length := by
  unfold stripDanglingCr; simp [h]
  cases b with
  | nil => simp at h
  | cons x xs => simp

theorem strip_length_mono (b d : Bytes) : (stripDanglingCr b).length ≤ (stripDanglingCr (b ++ d)).length := by
  cases d with
  | nil => simp
  | cons x d =>
    have h1 := strip_length_le b
    have h2 := strip_length_ge (b ++ x :: d)
    simp at h2; omega

theorem countR_fail_mono {max : Option Nat} {total x y : Nat}
    (h : overLimit max (total + x) = true) (hxy : x ≤ y) : ∃ f, countR max total y = .error f := by
  unfold countR
  have hm : overLimit max (total + y) = true := overLimit_mono h (by omega)
  have : max.isSome = true := by cases max <;> simp_all [overLimit]
  split
  · simp [hm]
  · simp [this]

theorem countR_error_mono {max : Option Nat} {total x y : Nat} {f : Fail}
    (h : countR max total x = .error f) (hxy : x ≤ y) : ∃ f', countR max total y = .error f' := by
  unfold countR at h
  split at h
  · split at h
    · rename_i ho; exact countR_fail_mono ho hxy
    · simp at h
  · rename_i hbig
    split at h
    · rename_i hs
      unfold countR
      have : ¬ total + y ≤ usizeMax := by omega
      simp [this, hs]
    · simp at h

/-! ### request-line phase -/

theorem rlStep_le {cfg : ReqCfg} {s s' : ReqState u} {rem : Bytes} {c : Nat} {i : Internal}
    (h : rlStep u cfg s rem = .ok i s' c) : c ≤ rem.length := by
  unfold rlStep at h
  cases hf : findCrlf rem with
  | none =>
    simp only [hf] at h
    split at h
    · simp at h
    · split at h <;> simp at h; omega
  | some e =>
    have := findCrlf_lt hf
    simp only [hf] at h
    split at h
    · simp at h
    · split at h
      · simp at h
      · split at h
        · simp at h
        · split at h
          · simp at h
          · simp at h; omega

theorem rlStep_p1 {cfg : ReqCfg} {s s' : ReqState u} {rem : Bytes} {c : Nat} {i : Internal}
    (h : rlStep u cfg s rem = .ok i s' c) (hi : i ≠ .incomplete) (d : Bytes) :
    rlStep u cfg s (rem ++ d) = .ok i s' c := by
  unfold rlStep at h ⊢
  cases hf : findCrlf rem with
  | none =>
    simp only [hf] at h
    split at h
    · simp at h
    · split at h <;> simp at h
      exact absurd h.1.symm hi
  | some e =>
    simp only [hf] at h
    simp only [findCrlf_append_of_some hf d, take_append_of_findCrlf hf d]
    exact h

theorem rlStep_incomplete {cfg : ReqCfg} {s s' : ReqState u} {rem : Bytes} {c : Nat}
    (h : rlStep u cfg s rem = .ok .incomplete s' c) : s' = s ∧ c = 0 := by
  unfold rlStep at h
  cases hf : findCrlf rem with
  | none =>
    simp only [hf] at h
    split at h
    · simp at h
    · split at h <;> simp at h
      exact ⟨h.1.symm, h.2.symm⟩
  | some e =>
    simp only [hf] at h
    split at h
    · simp at h
    · split at h
      · simp at h
      · split at h
        · simp at h
        · split at h <;> simp at h

theorem rlStep_completePart {cfg : ReqCfg} {s s' : ReqState u} {rem : Bytes} {c : Nat} {i : Internal}
    (h : rlStep u cfg s rem = .ok i s' c) (hi : i ≠ .incomplete) :
    i = .completePart ∧ s'.phase = .headers ∧ s'.body = s.body := by
  unfold rlStep at h
  cases hf : findCrlf rem with
  | none =>
    simp only [hf] at h
    split at h
    · simp at h
    · split at h <;> simp at h
      exact absurd h.1.symm hi
  | some e =>
    simp only [hf] at h
    split at h
    · simp at h
    · split at h
      · simp at h
      · split at h
        · simp at h
        · split at h
          · simp at h
          · simp at h; obtain ⟨rfl, rfl, _⟩ := h; simp

theorem rlStep_p3 {cfg : ReqCfg} {s : ReqState u} {rem : Bytes} {e : Fail}
    (h : rlStep u cfg s rem = .fail e) (d : Bytes) : ∃ e', rlStep u cfg s (rem ++ d) = .fail e' := by
  unfold rlStep at h
  cases hf : findCrlf rem with
  | some i =>
    simp only [hf] at h
    unfold rlStep
    simp only [findCrlf_append_of_some hf d, take_append_of_findCrlf hf d]
    exact ⟨e, h⟩
  | none =>
    simp only [hf] at h
    unfold rlStep
    by_cases hlong : overLimit cfg.rl (stripDanglingCr rem).length = true
    · -- the unterminated line was already too long
      cases hf2 : findCrlf (rem ++ d) with
      | none =>
        simp only
        have := overLimit_mono hlong (strip_length_mono rem d)
        simp [this]
      | some i =>
        simp only
        have hi := findCrlf_append_of_none hf hf2
        have hge : (stripDanglingCr rem).length ≤ i := by
          rcases hi with h1 | ⟨h1, h2, _⟩
          · have := strip_length_le rem; omega
          · have := strip_length_of_last h2; omega
        have := overLimit_mono hlong hge
        simp [this]
    · rw [if_neg hlong] at h
      by_cases hearly : early cfg.max s.totalBytes rem.length = true
      · -- the message was already too long
        cases hf2 : findCrlf (rem ++ d) with
        | none =>
          simp only
          split
          · exact ⟨_, rfl⟩
          · have : early cfg.max s.totalBytes (rem.length + d.length) = true := by
              unfold early at *; exact overLimit_mono hearly (by omega)
            simp [this]
        | some i =>
          simp only
          have hi := findCrlf_append_of_none hf hf2
          have hge : rem.length ≤ i + 2 := by
            rcases hi with h1 | ⟨h1, _, _⟩ <;> omega
          split
          · exact ⟨_, rfl⟩
          · split
            · exact ⟨_, rfl⟩
            · obtain ⟨f, hfail⟩ := countR_fail_mono (max := cfg.max) (total := s.totalBytes) hearly hge
              simp [hfail]
      · rw [if_neg hearly] at h; simp at h
