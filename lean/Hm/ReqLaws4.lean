import Hm.ReqLaws3

variable {u : UriImpl}

theorem hdrStep_p1 {cfg : ReqCfg} {s s' : ReqState u} {rem : Bytes} {c : Nat} {i : Internal}
    (h : hdrStep cfg s rem = .ok i s' c) (hi : i ≠ .incomplete) (d : Bytes) :
    hdrStep cfg s (rem ++ d) = .ok i s' c := by
  unfold hdrStep at h ⊢
  cases hp : Headers.parse cfg.hl s.headers (stripDanglingCr rem) with
  | error e => simp [hp] at h
  | ok r =>
    obtain ⟨hs, st, c0⟩ := r
    simp only [hp] at h
    cases st with
    | incomplete =>
      cases hcount : countR cfg.max s.totalBytes c0 with
      | error f => simp [hcount] at h
      | ok t =>
        simp only [hcount] at h
        split at h
        · simp at h
        · simp at h; exact absurd h.1.symm hi
    | complete =>
      rw [strip_append, (Headers.parse_append_complete hp (tailOf rem d)).1]
      exact h

theorem hdrStep_complete_phase {cfg : ReqCfg} {s s' : ReqState u} {rem : Bytes} {c : Nat}
    (h : hdrStep cfg s rem = .ok .completePart s' c) :
    ∃ cl, s'.phase = .body cl ∧ s'.body = s.body ∧ early cfg.max s'.totalBytes 0 = false := by
  unfold hdrStep at h
  cases hp : Headers.parse cfg.hl s.headers (stripDanglingCr rem) with
  | error e => simp [hp] at h
  | ok r =>
    obtain ⟨hs, st, c0⟩ := r
    simp only [hp] at h
    cases hcount : countR cfg.max s.totalBytes c0 with
    | error f => simp [hcount] at h
    | ok t =>
      simp only [hcount] at h
      cases st with
      | incomplete => simp only at h; split at h <;> simp at h
      | complete =>
        simp only at h
        unfold afterHeaders at h
        split at h
        · simp at h
        · split at h
          · simp at h
          · rename_i cl _
            cases hc2 : countR cfg.max t cl with
            | error f => simp [hc2] at h
            | ok t2 =>
              simp only [hc2, Res.ok.injEq, true_and] at h
              obtain ⟨rfl, _⟩ := h
              exact ⟨cl, rfl, rfl, countR_ok_not_early hc2⟩

theorem hdrStep_other_phase {cfg : ReqCfg} {s s' : ReqState u} {rem : Bytes} {c : Nat} {i : Internal}
    (h : hdrStep cfg s rem = .ok i s' c) (hi : i ≠ .completePart) :
    s'.phase = s.phase ∧ s'.body = s.body := by
  unfold hdrStep at h
  cases hp : Headers.parse cfg.hl s.headers (stripDanglingCr rem) with
  | error e => simp [hp] at h
  | ok r =>
    obtain ⟨hs, st, c0⟩ := r
    simp only [hp] at h
    cases hcount : countR cfg.max s.totalBytes c0 with
    | error f => simp [hcount] at h
    | ok t =>
      simp only [hcount] at h
      cases st with
      | incomplete =>
        simp only at h; split at h
        · simp at h
        · simp at h; obtain ⟨_, rfl, _⟩ := h; simp
      | complete =>
        simp only at h
        unfold afterHeaders at h
        split at h
        · simp at h; obtain ⟨_, rfl, _⟩ := h; simp
        · split at h
          · simp at h
          · split at h
            · simp at h
            · simp at h; exact absurd h.1.symm hi

theorem shiftConsumed_ok {k : Nat} {r : Except HErr (List Header × HStatus × Nat)} {hs st c}
    (h : r = .ok (hs, st, c)) : shiftConsumed k r = .ok (hs, st, k + c) := by
  subst h; rfl

theorem hdrStep_p2 {cfg : ReqCfg} {s s' : ReqState u} {rem : Bytes} {c : Nat}
    (h : hdrStep cfg s rem = .ok .incomplete s' c) (d : Bytes) :
    hdrStep cfg s (rem ++ d) = (hdrStep cfg s' (rem.drop c ++ d)).shift c := by
  have hle := hdrStep_le h
  unfold hdrStep at h
  cases hp : Headers.parse cfg.hl s.headers (stripDanglingCr rem) with
  | error e => simp [hp] at h
  | ok r =>
    obtain ⟨hs, st, c0⟩ := r
    simp only [hp] at h
    cases hcount : countR cfg.max s.totalBytes c0 with
    | error f => simp [hcount] at h
    | ok t =>
      simp only [hcount] at h
      cases st with
      | complete =>
        simp only at h
        unfold afterHeaders at h
        split at h
        · simp at h
        · split at h
          · simp at h
          · split at h <;> simp at h
      | incomplete =>
        simp only at h
        split at h
        · simp at h
        · simp only [Res.ok.injEq, true_and] at h
          obtain ⟨rfl, rfl⟩ := h
          obtain ⟨hc0, hfuse⟩ := Headers.parse_append_incomplete hp (tailOf rem d)
          unfold hdrStep
          rw [strip_append, hfuse, strip_drop_append hc0]
          simp only
          cases hr : Headers.parse cfg.hl hs ((stripDanglingCr rem).drop c0 ++ tailOf rem d) with
          | error e => simp [shiftConsumed, Res.shift]
          | ok r2 =>
            obtain ⟨hs2, st2, c2⟩ := r2
            simp only [shiftConsumed]
            rw [countR_assoc hcount c2]
            cases hcount2 : countR cfg.max t c2 with
            | error f => simp [Res.shift]
            | ok t2 =>
              simp only
              cases st2 with
              | incomplete =>
                simp only
                have hlen : (rem ++ d).length - (c0 + c2) = (rem.drop c0 ++ d).length - c2 := by
                  simp; omega
                rw [hlen]
                split
                · simp [Res.shift]
                · simp [Res.shift]
              | complete =>
                simp only
                exact afterHeaders_indep (by intro hs' t'; rfl)
