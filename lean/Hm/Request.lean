import Hm.Common

structure UriImpl where
  U : Type
  parse : Bytes → Option U
  display : U → Bytes
  default : U

structure ReqCfg where
  rl : Option Nat
  hl : Option Nat
  max : Option Nat
  ov : Bool
  tree : Tree

inductive ReqPhase where | requestLine | headers | body (n : Nat)
deriving DecidableEq, Repr

structure ReqState (u : UriImpl) where
  phase : ReqPhase
  totalBytes : Nat
  method : Bytes
  target : u.U
  headers : List Header
  body : Bytes

def Request.new (u : UriImpl) : ReqState u :=
  { phase := .requestLine, totalBytes := 0, method := kGet, target := u.default, headers := [], body := [] }

def defaultCfg (ov : Bool) (tree : Tree) : ReqCfg :=
  { rl := some 1000, hl := some 1000, max := some 10000000, ov := ov, tree := tree }

/-- src/request.rs:10-43 -/
def parseRequestLine (u : UriImpl) (line : Bytes) : Except Cat (Bytes × u.U) :=
  match findByte SP line with
  | none => .error .RequestLineNoMethodDelimiter
  | some md =>
    if md = 0 then .error .RequestLineNoMethodOrExtraWhitespace else
    let atTarget := line.drop (md + 1)
    match findByte SP atTarget with
    | none => .error .RequestLineNoTargetDelimiter
    | some td =>
      if td = 0 then .error .RequestLineNoTargetOrExtraWhitespace else
      match u.parse (atTarget.take td) with
      | none => .error .RequestTargetUriInvalid
      | some t =>
        if atTarget.drop (td + 1) = http11 then .ok (line.take md, t) else .error .RequestLineProtocol

/-- src/request.rs:125-136 -/
def countBytes (cfg : ReqCfg) (s : ReqState u) (bytes : Nat) : Out (ReqState u) :=
  if cfg.tree.repaired then
    if s.totalBytes + bytes ≤ usizeMax then
      let s' := { s with totalBytes := s.totalBytes + bytes }
      match cfg.max with
      | some m => if s'.totalBytes > m then .err .MessageTooLong else .ok s'
      | none => .ok s'
    else
      if cfg.max.isSome then .err .MessageTooLong else .ok { s with totalBytes := usizeMax }
  else do
    let t ← usizeAdd cfg.ov s.totalBytes bytes
    let s' := { s with totalBytes := t }
    match cfg.max with
    | some m => if t > m then .err .MessageTooLong else .ok s'
    | none => .ok s'

structure PhaseOut (σ : Type) where
  internal : Internal
  st : σ
  consumed : Nat
  reserves : List Reserve := []

/-- src/request.rs:373-386 -/
def parseMessageForBody (s : ReqState u) (raw : Bytes) (contentLength : Nat) : Out (PhaseOut (ReqState u)) :=
  if s.body.length > contentLength then .panic .arithmetic else
  let needed := contentLength - s.body.length
  if raw.length ≥ needed then
    .ok { internal := .completeWhole, st := { s with body := s.body ++ raw.take needed }, consumed := needed }
  else
    .ok { internal := .incomplete, st := { s with body := s.body ++ raw }, consumed := raw.length }

/-- src/request.rs:388-421 -/
def parseMessageForHeaders (cfg : ReqCfg) (s : ReqState u) (raw0 : Bytes) : Out (PhaseOut (ReqState u)) := do
  let raw := if cfg.tree.repaired then stripDanglingCr raw0 else raw0
  let (hs, status, consumed) ← liftH Cat.Headers (Headers.parse cfg.hl s.headers raw)
  let s ← countBytes cfg { s with headers := hs } consumed
  match status with
  | .incomplete => .ok { internal := .incomplete, st := s, consumed := consumed }
  | .complete =>
    match headerValue hs kContentLength with
    | none => .ok { internal := .completeWhole, st := s, consumed := consumed }
    | some v =>
      match parseNumber cfg.tree 10 v with
      | none => .err .InvalidContentLength
      | some cl => do
        let s ← countBytes cfg s cl
        let want := if cfg.tree.repaired then min cl (raw.length - consumed) else cl
        let r ← vecReserve "request.body" s.body.length want
        .ok { internal := .completePart, st := { s with phase := .body cl }, consumed := consumed, reserves := [r] }

/-- src/request.rs:423-455 -/
def parseMessageForRequestLine (u : UriImpl) (cfg : ReqCfg) (s : ReqState u) (raw : Bytes) :
    Out (PhaseOut (ReqState u)) :=
  let unterminated := if cfg.tree.repaired then (stripDanglingCr raw).length else raw.length
  match findCrlf raw with
  | none =>
    if overLimit cfg.rl unterminated then .err .RequestLineTooLong
    else .ok { internal := .incomplete, st := s, consumed := 0 }
  | some e =>
    if overLimit cfg.rl e then .err .RequestLineTooLong else
    let line := raw.take e
    if !validUtf8 line then .err .RequestLineNotValidText else do
    let s ← countBytes cfg s (e + 2)
    match parseRequestLine u line with
    | .error c => .err c
    | .ok (m, t) =>
      .ok { internal := .completePart, st := { s with phase := .headers, method := m, target := t }, consumed := e + 2 }

structure ParseOut (σ : Type) where
  st : σ
  status : Status
  consumed : Nat
  reserves : List Reserve

/-- src/request.rs:330-371: the phase loop (the phase only moves forward, so 3 rounds suffice) -/
def Request.parseLoop (u : UriImpl) (cfg : ReqCfg) : Nat → ReqState u → Bytes → Nat → List Reserve →
    Out (ParseOut (ReqState u))
  | 0, s, _, tc, rs => .ok { st := s, status := .incomplete, consumed := tc, reserves := rs }
  | fuel + 1, s, raw, tc, rs => do
    let rem := raw.drop tc
    let po ← match s.phase with
      | .body n => parseMessageForBody s rem n
      | .headers => parseMessageForHeaders cfg s rem
      | .requestLine => parseMessageForRequestLine u cfg s rem
    let tc := tc + po.consumed
    let rs := rs ++ po.reserves
    match po.internal with
    | .completePart => Request.parseLoop u cfg fuel po.st raw tc rs
    | .completeWhole => .ok { st := po.st, status := .complete, consumed := tc, reserves := rs }
    | .incomplete =>
      if cfg.tree.repaired && overLimit cfg.max (po.st.totalBytes + (raw.length - tc)) then .err .MessageTooLong
      else .ok { st := po.st, status := .incomplete, consumed := tc, reserves := rs }

def Request.parse (u : UriImpl) (cfg : ReqCfg) (s : ReqState u) (raw : Bytes) :=
  Request.parseLoop u cfg 4 s raw 0 []

/-- src/request.rs:188-195 (no folding) -/
def Request.generate (u : UriImpl) (cfg : ReqCfg) (s : ReqState u) : Option Bytes :=
  (Headers.generate cfg.hl s.headers).map fun h =>
    s.method ++ [SP] ++ u.display s.target ++ [SP] ++ http11 ++ CRLF ++ h ++ s.body
