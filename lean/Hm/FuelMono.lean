import Hm.C15Fields

/-! successes of the decoders are stable under more fuel; hence the truncation theorems hold at the
    level of the entry points `gunzip` / `zlibDecode` / `inflateRaw`, whose fuel depends on the input size -/

/-- every success of `m` is a success of `m'` with the same result -/
def RLe (m m' : R α) : Prop := ∀ i p r, m i p = .ok r → m' i p = .ok r

theorem RLe.refl (m : R α) : RLe m m := fun _ _ _ h => h

theorem RLe.fail (e : RErr) (m : R α) : RLe (R.fail e) m := by
  intro i p r h; simp [R.fail] at h

theorem RLe.bind {m m' : R α} {f f' : α → R β} (hm : RLe m m') (hf : ∀ a, RLe (f a) (f' a)) :
    RLe (R.bind m f) (R.bind m' f') := by
  intro i p r h
  obtain ⟨b, q⟩ := r
  obtain ⟨a, p1, h1, h2⟩ := bind_ok h
  unfold R.bind
  rw [hm i p _ h1]
  exact hf a i p1 _ h2

theorem RLe.ite {c : Prop} [Decidable c] {a a' b b' : R α} (ha : RLe a a') (hb : RLe b b') :
    RLe (if c then a else b) (if c then a' else b') := by
  split <;> assumption

theorem inflateCodes_le (lit dist : Huff) : ∀ (f f' : Nat) (out : Array UInt8), f ≤ f' →
    RLe (inflateCodes lit dist f out) (inflateCodes lit dist f' out)
  | 0, _, _, _ => by unfold inflateCodes; exact RLe.fail _ _
  | f + 1, 0, _, h => by omega
  | f + 1, f' + 1, out, h => by
    unfold inflateCodes
    apply RLe.bind (RLe.refl _); intro sym
    apply RLe.ite (inflateCodes_le lit dist f f' _ (by omega))
    apply RLe.ite (RLe.refl _)
    apply RLe.ite (RLe.refl _)
    apply RLe.bind (RLe.refl _); intro eb
    apply RLe.bind (RLe.refl _); intro ds
    apply RLe.ite (RLe.refl _)
    apply RLe.bind (RLe.refl _); intro db
    exact inflateCodes_le lit dist f f' _ (by omega)

theorem dynamicBlock_le (f f' : Nat) (out : Array UInt8) (h : f ≤ f') : RLe (dynamicBlock f out) (dynamicBlock f' out) := by
  unfold dynamicBlock
  apply RLe.bind (RLe.refl _); intro hlit
  apply RLe.bind (RLe.refl _); intro hdist
  apply RLe.bind (RLe.refl _); intro hclen
  apply RLe.bind (RLe.refl _); intro clv
  apply RLe.ite (RLe.refl _)
  apply RLe.bind (RLe.refl _); intro lens
  apply RLe.ite (RLe.refl _)
  apply RLe.ite (RLe.refl _)
  exact inflateCodes_le _ _ f f' out h

theorem inflateBlocks_le (sf sf' : Nat) (hs : sf ≤ sf') : ∀ (f f' : Nat) (out : Array UInt8), f ≤ f' →
    RLe (inflateBlocks sf f out) (inflateBlocks sf' f' out)
  | 0, _, _, _ => by unfold inflateBlocks; exact RLe.fail _ _
  | f + 1, 0, _, h => by omega
  | f + 1, f' + 1, out, h => by
    unfold inflateBlocks
    apply RLe.bind (RLe.refl _); intro bfinal
    apply RLe.bind (RLe.refl _); intro btype
    apply RLe.bind
    · apply RLe.ite (RLe.refl _)
      apply RLe.ite (inflateCodes_le _ _ sf sf' out hs)
      apply RLe.ite (dynamicBlock_le sf sf' out hs)
      exact RLe.refl _
    · intro out'
      apply RLe.ite (RLe.refl _)
      exact inflateBlocks_le sf sf' hs f f' out' (by omega)

theorem inflateR_le {N N' : Nat} (h : N ≤ N') : RLe (inflateR N) (inflateR N') :=
  inflateBlocks_le _ _ (by omega) _ _ _ (by omega)

theorem zlibR_le {N N' : Nat} (h : N ≤ N') : RLe (zlibR N) (zlibR N') := by
  unfold zlibR
  apply RLe.bind (RLe.refl _); intro cmf
  apply RLe.bind (RLe.refl _); intro flg
  apply RLe.ite (RLe.refl _)
  apply RLe.bind (inflateR_le h); intro out
  exact RLe.refl _

theorem gunzipR_le {N N' : Nat} (h : N ≤ N') : RLe (gunzipR N) (gunzipR N') := by
  unfold gunzipR
  apply RLe.bind (RLe.refl _); intro hdr
  apply RLe.ite (RLe.refl _)
  apply RLe.ite (RLe.refl _)
  apply RLe.bind (RLe.refl _); intro extra
  apply RLe.bind (RLe.refl _); intro name
  apply RLe.bind (RLe.refl _); intro comment
  apply RLe.bind (RLe.refl _); intro hcrc
  apply RLe.ite (RLe.refl _)
  apply RLe.bind (inflateR_le h); intro out
  exact RLe.refl _

/-- truncation at the level of an entry point: if `runR m` accepts `bs` and the decoder consumed it to
    the last byte, then `runR m` rejects every strict prefix of `bs` -/
theorem runR_truncation {m : Nat → R (Array UInt8)} (hloc : ∀ N, Local (m N)) (hle : ∀ N N', N ≤ N' → RLe (m N) (m N'))
    (bs : Bytes) {out : Array UInt8} {p' : Nat}
    (h : m (8 * bs.toArray.size) (inpOfBytes bs.toArray) 0 = .ok (out, p')) (hall : 8 * bs.length ≤ p' + 7)
    (k : Nat) (hk : k < bs.length) : runR m (bs.take k) = none := by
  have hcut := truncation_fails (hloc (8 * bs.toArray.size)) bs.toArray h (by simpa using hall) k (by simpa using hk)
  have hext : (bs.take k).toArray = bs.toArray.extract 0 k := by
    apply Array.ext'
    simp
  unfold runR
  simp only []
  rw [hext]
  cases hr : m (8 * (bs.toArray.extract 0 k).size) (inpOfBytes (bs.toArray.extract 0 k)) 0 with
  | error e => rfl
  | ok r =>
    exfalso
    have := hle _ (8 * bs.toArray.size) (by simp; omega) _ _ _ hr
    rw [hcut] at this
    cases this

/-- C15 (truncation) at the entry points used by `decode_body` -/
theorem C15_gunzip_truncated (bs : Bytes) {out : Array UInt8} {p' : Nat}
    (h : gunzipR (8 * bs.toArray.size) (inpOfBytes bs.toArray) 0 = .ok (out, p')) (hall : 8 * bs.length ≤ p' + 7)
    (k : Nat) (hk : k < bs.length) : gunzip (bs.take k) = none :=
  runR_truncation Local.gunzipR (fun _ _ h => gunzipR_le h) bs h hall k hk

theorem C15_zlibDecode_truncated (bs : Bytes) {out : Array UInt8} {p' : Nat}
    (h : zlibR (8 * bs.toArray.size) (inpOfBytes bs.toArray) 0 = .ok (out, p')) (hall : 8 * bs.length ≤ p' + 7)
    (k : Nat) (hk : k < bs.length) : zlibDecode (bs.take k) = none :=
  runR_truncation Local.zlibR (fun _ _ h => zlibR_le h) bs h hall k hk

theorem C15_inflateRaw_truncated (bs : Bytes) {out : Array UInt8} {p' : Nat}
    (h : inflateR (8 * bs.toArray.size) (inpOfBytes bs.toArray) 0 = .ok (out, p')) (hall : 8 * bs.length ≤ p' + 7)
    (k : Nat) (hk : k < bs.length) : inflateRaw (bs.take k) = none :=
  runR_truncation Local.inflateR (fun _ _ h => inflateR_le h) bs h hall k hk
