import Hm.UriLaws2
import Hm.Decimal

/-! the URI law for absolute-form targets `scheme://[userinfo@]host[:port]/path?query#fragment` with a registered-name
    host (which covers dotted IPv4 text): `parse (display u) = some u` -/

namespace Rhymuri

/-- bytes that may appear in a printed authority: none of `[ @ / ? #`, SP, CR, and ASCII only -/
def authByte (b : UInt8) : Bool :=
  b != 91 && b != 47 && b != 63 && b != 35 && b != 32 && b != 13 && decide (b < 128)

theorem byteTable' (P : UInt8 → Prop) (h : ∀ n, n < 256 → P n.toUInt8) (b : UInt8) : P b := by
  have := h b.toNat b.toNat_lt
  simpa using this

theorem regName_authByte (b : UInt8) : isRegName b = true → (authByte b = true ∧ b ≠ 64 ∧ b ≠ 37 ∧ b ≠ 58) :=
  byteTable' (fun b => isRegName b = true → (authByte b = true ∧ b ≠ 64 ∧ b ≠ 37 ∧ b ≠ 58)) (by decide +kernel) b
theorem userInfo_authByte (b : UInt8) : isUserInfo b = true → (authByte b = true ∧ b ≠ 64 ∧ b ≠ 37) :=
  byteTable' (fun b => isUserInfo b = true → (authByte b = true ∧ b ≠ 64 ∧ b ≠ 37)) (by decide +kernel) b
theorem hexish_authByte (b : UInt8) : (b = 37 ∨ b = 58 ∨ (48 ≤ b ∧ b ≤ 57) ∨ (65 ≤ b ∧ b ≤ 70)) → (authByte b = true ∧ b ≠ 64) :=
  byteTable' (fun b => (b = 37 ∨ b = 58 ∨ (48 ≤ b ∧ b ≤ 57) ∨ (65 ≤ b ∧ b ≤ 70)) → (authByte b = true ∧ b ≠ 64)) (by decide +kernel) b
theorem scheme_authByte (b : UInt8) : (isAlpha b || isSchemeNotFirst b) = true → (authByte b = true ∧ b ≠ 58) :=
  byteTable' (fun b => (isAlpha b || isSchemeNotFirst b) = true → (authByte b = true ∧ b ≠ 58)) (by decide +kernel) b

theorem encode_authByte (enc : UInt8 → Bool) (henc : ∀ b, enc b = true → authByte b = true ∧ b ≠ 64) (s : Bytes) :
    ∀ b ∈ encodeElement enc s, authByte b = true ∧ b ≠ 64 := by
  intro b hb
  rcases encode_bytes enc s b hb with h | h | h | h
  · exact henc b h
  · exact hexish_authByte b (Or.inl h)
  · exact hexish_authByte b (Or.inr (Or.inr (Or.inl h)))
  · exact hexish_authByte b (Or.inr (Or.inr (Or.inr h)))

/-- the host scanner reads a percent-encoded registered name back -/
theorem hpRegName_encode (h : Bytes) : ∀ (acc rest : Bytes),
    hpRegName (encodeElement isRegName h ++ rest) acc none = hpRegName rest (acc ++ h) none := by
  induction h with
  | nil => intro acc rest; simp [encodeElement]
  | cons b t ih =>
    intro acc rest
    unfold encodeElement at ih ⊢
    simp only [List.flatMap_cons]
    by_cases hb : (b < 128 && isRegName b) = true
    · simp only [hb, if_true, List.singleton_append, List.cons_append]
      have hreg : isRegName b = true := by simp only [Bool.and_eq_true] at hb; exact hb.2
      obtain ⟨_, _, h37, h58⟩ := regName_authByte b hreg
      conv => lhs; unfold hpRegName
      simp only [h37, h58, if_false, hreg, if_true, List.nil_append]
      rw [ih]; simp
    · simp only [hb, Bool.false_eq_true, if_false, List.cons_append, List.nil_append]
      have h1 : b.toNat / 16 < 16 := by have := b.toNat_lt; omega
      have h2 : b.toNat % 16 < 16 := by omega
      have hval : ((0 * 16 + b.toNat / 16) * 16 + b.toNat % 16) % 256 = b.toNat := by
        have := b.toNat_lt; omega
      conv => lhs; unfold hpRegName
      simp only [if_true]
      conv => lhs; unfold hpRegName
      simp only [hexValB_hexUpper _ h1]
      have h21 : (2 : Nat) ≠ 1 := by omega
      simp only [h21, if_false]
      conv => lhs; unfold hpRegName
      simp only [hexValB_hexUpper _ h2, if_true, hval]
      rw [ih]
      simp

def portPart : Option Nat → Bytes
  | none => []
  | some p => 58 :: natToDec p

theorem natToDec_authByte (n : Nat) : ∀ b ∈ natToDec n, authByte b = true ∧ b ≠ 64 := by
  intro b hb
  have hd := (natToDec_digits n).1 b hb
  unfold isDig at hd
  simp only [Bool.and_eq_true, decide_eq_true_eq] at hd
  exact hexish_authByte b (Or.inr (Or.inr (Or.inl hd)))

theorem portPart_authByte (p : Option Nat) : ∀ b ∈ portPart p, authByte b = true ∧ b ≠ 64 := by
  intro b hb
  cases p with
  | none => simp [portPart] at hb
  | some n =>
    simp only [portPart, List.mem_cons] at hb
    rcases hb with rfl | hb
    · decide
    · exact natToDec_authByte n b hb

theorem parseHostPort_not_bracket (s : Bytes) (h : ∀ b ∈ s, b ≠ 91) : parseHostPort s = hpRegName s [] none := by
  unfold parseHostPort
  split
  · exact absurd rfl (h 91 (by simp))
  · exact absurd rfl (h 91 (by simp))
  · rfl

theorem parseHostPort_regname (host : Bytes) (port : Option Nat) (hl : lower host = host)
    (hp : ∀ p, port = some p → p ≤ 65535) :
    parseHostPort (encodeElement isRegName host ++ portPart port) = some (host, port) := by
  have hclean : ∀ b ∈ encodeElement isRegName host ++ portPart port, b ≠ 91 := by
    intro b hb
    rw [List.mem_append] at hb
    have : authByte b = true := by
      rcases hb with hb | hb
      · exact (encode_authByte isRegName (fun b h => ⟨(regName_authByte b h).1, (regName_authByte b h).2.1⟩) host b hb).1
      · exact (portPart_authByte port b hb).1
    intro hc; subst hc; simp [authByte] at this
  rw [parseHostPort_not_bracket _ hclean, hpRegName_encode]
  simp only [List.nil_append]
  cases port with
  | none =>
    simp only [portPart]
    unfold hpRegName
    simp [finishHostPort, hl]
  | some p =>
    simp only [portPart]
    unfold hpRegName
    simp only [if_true]
    have h37 : ¬ ((58 : UInt8) = 37) := by decide
    simp only [h37, if_false]
    unfold hpPort finishHostPort
    have hne : (natToDec p).isEmpty = false := by
      cases hh : natToDec p with
      | nil => exact absurd hh (natToDec_digits p).2
      | cons a as => rfl
    have hparse := parse_natToDec ⟨false⟩ p 65535 (hp p rfl)
    simp only [Bool.false_and, Bool.false_eq_true, if_false] at hparse
    simp only [hne, Bool.false_eq_true, if_false, hparse, if_true, hl]

def userPart : Option Bytes → Bytes
  | none => []
  | some ui => encodeElement isUserInfo ui ++ [64]

theorem findByte_append_clean (c : UInt8) (A B : Bytes) (hA : ∀ b ∈ A, b ≠ c) :
    findByte c (A ++ c :: B) = some A.length := by
  unfold findByte
  induction A with
  | nil => simp [List.idxOf?_cons]
  | cons a as ih =>
    have ha : a ≠ c := hA a (by simp)
    have := ih (fun b hb => hA b (by simp [hb]))
    simp only [List.cons_append, List.idxOf?_cons, List.length_cons]
    have hbeq : (a == c) = false := by simp [ha]
    rw [hbeq]
    simp only [Bool.false_eq_true, if_false]
    rw [this]; rfl

theorem findByte_none_clean (c : UInt8) (A : Bytes) (hA : ∀ b ∈ A, b ≠ c) : findByte c A = none := by
  unfold findByte
  induction A with
  | nil => rfl
  | cons a as ih =>
    have ha : a ≠ c := hA a (by simp)
    have := ih (fun b hb => hA b (by simp [hb]))
    simp only [List.idxOf?_cons]
    have hbeq : (a == c) = false := by simp [ha]
    rw [hbeq]
    simp only [Bool.false_eq_true, if_false]
    rw [this]; rfl

/-- what `display` prints for an authority with a registered-name host -/
def authStr (ui : Option Bytes) (host : Bytes) (port : Option Nat) : Bytes :=
  userPart ui ++ (encodeElement isRegName host ++ portPart port)

theorem authStr_authByte (ui : Option Bytes) (host : Bytes) (port : Option Nat) :
    ∀ b ∈ authStr ui host port, authByte b = true := by
  intro b hb
  unfold authStr at hb
  rw [List.mem_append, List.mem_append] at hb
  rcases hb with hb | hb | hb
  · cases ui with
    | none => simp [userPart] at hb
    | some u0 =>
      simp only [userPart, List.mem_append, List.mem_singleton] at hb
      rcases hb with hb | rfl
      · exact (encode_authByte isUserInfo (fun b h => ⟨(userInfo_authByte b h).1, (userInfo_authByte b h).2.1⟩) u0 b hb).1
      · decide
  · exact (encode_authByte isRegName (fun b h => ⟨(regName_authByte b h).1, (regName_authByte b h).2.1⟩) host b hb).1
  · exact (portPart_authByte port b hb).1

theorem parseAuthority_display (ui : Option Bytes) (host : Bytes) (port : Option Nat) (hl : lower host = host)
    (hp : ∀ p, port = some p → p ≤ 65535) :
    parseAuthority (authStr ui host port) = some ⟨ui, host, port⟩ := by
  have hhp : ∀ b ∈ encodeElement isRegName host ++ portPart port, b ≠ 64 := by
    intro b hb
    rw [List.mem_append] at hb
    rcases hb with hb | hb
    · exact (encode_authByte isRegName (fun b h => ⟨(regName_authByte b h).1, (regName_authByte b h).2.1⟩) host b hb).2
    · exact (portPart_authByte port b hb).2
  unfold parseAuthority authStr
  cases ui with
  | none =>
    simp only [userPart, List.nil_append]
    rw [findByte_none_clean 64 _ hhp, parseHostPort_regname host port hl hp]
  | some u0 =>
    simp only [userPart, List.append_assoc, List.singleton_append]
    have hu : ∀ b ∈ encodeElement isUserInfo u0, b ≠ 64 := fun b hb =>
      (encode_authByte isUserInfo (fun b h => ⟨(userInfo_authByte b h).1, (userInfo_authByte b h).2.1⟩) u0 b hb).2
    rw [findByte_append_clean 64 _ _ hu]
    simp only
    have hdr : ∀ (A B : Bytes), List.drop (A.length + 1) (A ++ 64 :: B) = B := by
      intro A B
      have : A ++ 64 :: B = (A ++ [64]) ++ B := by simp
      rw [this]; exact List.drop_left' (by simp)
    rw [List.take_left' rfl, hdr]
    have hdec : decodeElement isUserInfo (encodeElement isUserInfo u0) = some u0 :=
      decode_encode isUserInfo isUserInfo (fun _ h => h) (by decide) u0
    rw [hdec, parseHostPort_regname host port hl hp]

/-- the path string printed for `[] :: r`, with what the parser needs to know about it -/
theorem abs_path_facts (r : List Bytes) (hr : r = [] ∨ ∃ x xs, r = x :: xs ∧ x ≠ []) :
    ∃ P', (if ([] :: r) = [[]] then [47] else []) ++ joinWith [47] (([] :: r).map (encodeElement isPchar)) = 47 :: P' ∧
      (∀ b ∈ (47 :: P' : Bytes), b ≠ 63 ∧ b ≠ 35) ∧ parsePath (47 :: P') = some ([] :: r) := by
  rcases hr with rfl | ⟨x, xs, rfl, hx⟩
  · refine ⟨[], ?_, ?_, ?_⟩
    · simp [joinWith, encodeElement]
    · intro b hb; simp at hb; subst hb; decide
    · simp [parsePath]
  · obtain ⟨j0, J', hJ, hj0, hclean, hpath⟩ := origin_facts x xs hx
    refine ⟨j0 :: J', ?_, ?_, hpath⟩
    · have hne : ¬ (([] : Bytes) :: x :: xs = [[]]) := by simp
      rw [if_neg hne]
      simp only [List.map_cons, joinWith, List.nil_append]
      rw [show encodeElement isPchar [] = [] from rfl]
      simp only [List.nil_append, List.singleton_append]
      have := hJ
      simp only [List.map_cons] at this
      rw [this]
    · intro b hb
      simp only [List.mem_cons] at hb
      rcases hb with rfl | hb
      · decide
      · exact hclean b (by simpa using hb)

theorem scheme_clean (c : UInt8) (cs : Bytes) (hc : isAlpha c = true) (hcs : cs.all isSchemeNotFirst = true) :
    ∀ b ∈ c :: cs, authByte b = true ∧ b ≠ 58 := by
  intro b hb
  simp only [List.mem_cons] at hb
  rcases hb with rfl | hb
  · exact scheme_authByte b (by simp [hc])
  · have := List.all_eq_true.mp hcs b hb
    exact scheme_authByte b (by simp [this])

/-- the URI law for absolute-form targets with a registered-name host -/
theorem parse_display_absolute (sch : Bytes) (ui : Option Bytes) (host : Bytes) (port : Option Nat)
    (r : List Bytes) (q f : Option Bytes)
    (hsch : ∃ c cs, sch = c :: cs ∧ isAlpha c = true ∧ cs.all isSchemeNotFirst = true ∧ lower sch = sch)
    (hl : lower host = host) (hv6 : (validUtf8 host && validIpv6 host) = false)
    (hp : ∀ p, port = some p → p ≤ 65535)
    (hr : r = [] ∨ ∃ x xs, r = x :: xs ∧ x ≠ []) :
    parse (display ⟨some sch, some ⟨ui, host, port⟩, [] :: r, q, f⟩) =
      some ⟨some sch, some ⟨ui, host, port⟩, [] :: r, q, f⟩ := by
  obtain ⟨c, cs, hsc, hc, hcs, hlow⟩ := hsch
  obtain ⟨P', hP, hPclean, hpath⟩ := abs_path_facts r hr
  have hschclean := scheme_clean c cs hc hcs
  have hauth := authStr_authByte ui host port
  -- the printed form
  have hdisp : display ⟨some sch, some ⟨ui, host, port⟩, [] :: r, q, f⟩ =
      sch ++ 58 :: (47 :: 47 :: (authStr ui host port ++ 47 :: P') ++ (queryPart q ++ fragmentPart f)) := by
    have hda : displayAuthority ⟨ui, host, port⟩ = authStr ui host port := by
      unfold displayAuthority authStr
      simp only [hv6, Bool.false_eq_true, if_false]
      cases ui <;> cases port <;> simp [userPart, portPart]
    unfold display
    simp only [hda]
    rw [List.append_assoc (sch ++ [58] ++ ([47, 47] ++ authStr ui host port)), hP]
    cases q <;> cases f <;> simp [queryPart, fragmentPart]
  rw [hdisp]
  unfold parse parseSchemePart
  -- the scheme
  have hslash : findByte 47 (sch ++ 58 :: (47 :: 47 :: (authStr ui host port ++ 47 :: P') ++ (queryPart q ++ fragmentPart f)))
      = some (sch ++ [58]).length := by
    have : sch ++ 58 :: (47 :: 47 :: (authStr ui host port ++ 47 :: P') ++ (queryPart q ++ fragmentPart f))
        = (sch ++ [58]) ++ 47 :: (47 :: (authStr ui host port ++ 47 :: P') ++ (queryPart q ++ fragmentPart f)) := by simp
    rw [this]
    apply findByte_append_clean
    intro b hb
    rw [List.mem_append] at hb
    rcases hb with hb | hb
    · have := (hschclean b (hsc ▸ hb)).1
      intro hc'; subst hc'; simp [authByte] at this
    · simp at hb; subst hb; decide
  rw [hslash]
  simp only [Option.getD_some]
  have htk : (sch ++ 58 :: (47 :: 47 :: (authStr ui host port ++ 47 :: P') ++ (queryPart q ++ fragmentPart f))).take (sch ++ [58]).length
      = sch ++ [58] := by
    have : sch ++ 58 :: (47 :: 47 :: (authStr ui host port ++ 47 :: P') ++ (queryPart q ++ fragmentPart f))
        = (sch ++ [58]) ++ (47 :: 47 :: (authStr ui host port ++ 47 :: P') ++ (queryPart q ++ fragmentPart f)) := by simp
    rw [this, List.take_left' rfl]
  rw [htk]
  have hcolon : findByte 58 (sch ++ [58]) = some sch.length :=
    findByte_append_clean 58 sch [] (fun b hb => (hschclean b (hsc ▸ hb)).2)
  rw [hcolon]
  simp only
  have htk2 : (sch ++ 58 :: (47 :: 47 :: (authStr ui host port ++ 47 :: P') ++ (queryPart q ++ fragmentPart f))).take sch.length = sch :=
    List.take_left' rfl
  have hdr2 : (sch ++ 58 :: (47 :: 47 :: (authStr ui host port ++ 47 :: P') ++ (queryPart q ++ fragmentPart f))).drop (sch.length + 1)
      = 47 :: 47 :: (authStr ui host port ++ 47 :: P') ++ (queryPart q ++ fragmentPart f) := by
    have : sch ++ 58 :: (47 :: 47 :: (authStr ui host port ++ 47 :: P') ++ (queryPart q ++ fragmentPart f))
        = (sch ++ [58]) ++ (47 :: 47 :: (authStr ui host port ++ 47 :: P') ++ (queryPart q ++ fragmentPart f)) := by simp
    rw [this]; exact List.drop_left' (by simp)
  rw [htk2, hdr2]
  have hschk : (isAlpha c && cs.all isSchemeNotFirst) = true := by simp [hc, hcs]
  subst hsc
  simp only [hschk, if_true, hlow]
  -- where authority and path end
  have hPall : ∀ b ∈ (47 :: 47 :: (authStr ui host port ++ 47 :: P') : Bytes), b ≠ 63 ∧ b ≠ 35 := by
    intro b hb
    simp only [List.mem_cons, List.mem_append] at hb
    rcases hb with rfl | rfl | hb | hb
    · decide
    · decide
    · have := hauth b hb
      constructor <;> (intro hc'; subst hc'; simp [authByte] at this)
    · exact hPclean b (by simpa using hb)
  have hend : (((47 :: 47 :: (authStr ui host port ++ 47 :: P')) ++ (queryPart q ++ fragmentPart f)).findIdx? fun b => b == 63 || b == 35).getD
      ((47 :: 47 :: (authStr ui host port ++ 47 :: P')) ++ (queryPart q ++ fragmentPart f)).length
      = (47 :: 47 :: (authStr ui host port ++ 47 :: P') : Bytes).length := by
    cases hqf : queryPart q ++ fragmentPart f with
    | nil => simp only [List.append_nil]; rw [findIdx_path_none _ hPall]; simp
    | cons c' rest =>
      have hc' : c' = 63 ∨ c' = 35 := by
        cases q with
        | some q0 => simp [queryPart] at hqf; exact Or.inl hqf.1.symm
        | none =>
          cases f with
          | some f0 => simp [queryPart, fragmentPart] at hqf; exact Or.inr hqf.1.symm
          | none => simp [queryPart, fragmentPart] at hqf
      rw [findIdx_path_then _ hPall c' hc' rest]; simp
  rw [hend]
  rw [List.take_left' rfl, List.drop_left' rfl]
  simp only
  have haEnd : findByte 47 (authStr ui host port ++ 47 :: P') = some (authStr ui host port).length := by
    apply findByte_append_clean
    intro b hb
    have := hauth b hb
    intro hc'; subst hc'; simp [authByte] at this
  rw [haEnd]
  simp only [Option.getD_some]
  rw [List.take_left' rfl, List.drop_left' rfl, parseAuthority_display ui host port hl hp]
  simp only [List.isEmpty_cons, Bool.false_eq_true, if_false, hpath, Option.map_some]
  exact parse_tail (some (c :: cs)) (some ⟨ui, host, port⟩) ([] :: r) q f

end Rhymuri
