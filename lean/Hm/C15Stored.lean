import Hm.FuelMono
import Hm.C13EndToEnd

/-! C15, hypothesis-free instance: every strict prefix of a level-0 gzip member is rejected -/

/-- for every body split into stored-block pieces and every header bytes: the member decodes (C13), and
    cutting it anywhere — inside the header, a block header, the data, the CRC or the length — makes
    `gunzip` return nothing.  (Also the non-vacuity witness of `C15_gunzip_truncated`.) -/
theorem C15_gzipStored_every_prefix_rejected (ds : List Bytes) (hne : ds ≠ []) (hl : ∀ d ∈ ds, d.length ≤ 65535)
    (m0 m1 m2 m3 xfl os : UInt8) (k : Nat) (hk : k < (gzipStored ds m0 m1 m2 m3 xfl os).length) :
    gunzip ((gzipStored ds m0 m1 m2 m3 xfl os).take k) = none :=
  C15_gunzip_truncated _ (gunzipR_gzipStored ds hne hl m0 m1 m2 m3 xfl os) (by omega) k hk

/-- the same for the zlib form (`deflate` per RFC 7230) … -/
theorem C15_zlibStored_every_prefix_rejected (ds : List Bytes) (hne : ds ≠ []) (hl : ∀ d ∈ ds, d.length ≤ 65535)
    (ad : Bytes) (had : ad.length = 4)
    (hsum : ad.foldl (fun acc b => acc * 256 + b.toNat) 0 = adler32 ds.flatten.toArray)
    (k : Nat) (hk : k < ([0x78, 0x01] ++ storedEnc ds ++ ad : Bytes).length) :
    zlibDecode (([0x78, 0x01] ++ storedEnc ds ++ ad : Bytes).take k) = none :=
  C15_zlibDecode_truncated _ (zlibR_zlibStored ds hne hl ad had hsum) (by omega) k hk

/-- … and for the bare deflate stream -/
theorem C15_rawStored_every_prefix_rejected (ds : List Bytes) (hne : ds ≠ []) (hl : ∀ d ∈ ds, d.length ≤ 65535)
    (k : Nat) (hk : k < (storedEnc ds).length) :
    inflateRaw ((storedEnc ds).take k) = none :=
  C15_inflateRaw_truncated _ (by simpa using C13_inflate_stored_blocks ds hne hl) (by omega) k hk

/-! ### at the level of `decode_body` -/

theorem encGzip0_eq (x : Bytes) : encGzip0 x = gzipStored (pieces x) 0 0 0 0 0 255 := by
  unfold encGzip0 gzipStored
  rw [(pieces_ok x).2.1]

theorem tokens_gzip : headerTokens [⟨kContentEncoding, kGzip⟩] kContentEncoding = [kGzip] := by decide +kernel

/-- C15 at `decode_body` (modelled decoders, level-0 gzip): for every body `x` and every cut `k`, a
    message whose Content-Encoding is `gzip` and whose body is the first `k` bytes of the encoding of
    `x` is refused, and its headers are returned untouched — no partial content, no rewritten
    Content-Length -/
theorem C15_decodeBody_truncated_gzip (hs : List Header) (htok : headerTokens hs kContentEncoding = [kGzip])
    (x : Bytes) (k : Nat) (hk : k < (encGzip0 x).length) :
    decodeBody gunzip deflateSniff hs ((encGzip0 x).take k) = (hs, none) := by
  obtain ⟨hne, _, hle⟩ := pieces_ok x
  have hnone : gunzip ((encGzip0 x).take k) = none := by
    rw [encGzip0_eq] at hk ⊢
    exact C15_gzipStored_every_prefix_rejected (pieces x) hne hle 0 0 0 0 0 255 k hk
  unfold decodeBody
  rw [htok]
  simp [decodeRev, hnone]

/-- C13 at `decode_body` for the same message, uncut: the body comes back, Content-Encoding is removed
    and Content-Length is set to the decoded length -/
theorem C13_decodeBody_gzip (hs : List Header) (htok : headerTokens hs kContentEncoding = [kGzip]) (x : Bytes) :
    decodeBody gunzip deflateSniff hs (encGzip0 x)
      = (setHeader (removeHeader hs kContentEncoding) kContentLength (natToDec x.length), some x) := by
  unfold decodeBody
  rw [htok]
  simp [decodeRev, gunzip_encGzip0]

/-- the token hypothesis is satisfiable: `Content-Encoding: gzip` -/
example : headerTokens [⟨kContentEncoding, kGzip⟩] kContentEncoding = [kGzip] := tokens_gzip

/-- C13 at `decode_body`, every stack: if the Content-Encoding tokens of `hs` are the names of the
    layers `ls` (in order), the body encoded through `ls` comes back exactly, the Content-Encoding
    header is removed and Content-Length is the decoded length -/
theorem C13_decodeBody_level0_stacks (hs : List Header) (ls : List Layer)
    (htok : headerTokens hs kContentEncoding = ls.map Layer.name) (x : Bytes) :
    decodeBody gunzip deflateSniff hs (encLayers ls x)
      = (setHeader (removeHeader hs kContentEncoding) kContentLength (natToDec x.length), some x) := by
  unfold decodeBody
  rw [htok, C13_level0_stacks]
  simp
