import Hm.Inflate

/-! bit-level facts about `inpOfBytes` and `readBits`, towards the inflate inversion theorems of C13 -/

/-- the value `readBits` computes, as a function of the input -/
def bitsVal (inp : Inp) : Nat → Nat → Nat
  | _, 0 => 0
  | p, n + 1 => ((inp p).getD false).toNat + 2 * bitsVal inp (p + 1) n

theorem readBits_eq (inp : Inp) (n p : Nat) (h : ∀ i, i < n → (inp (p + i)).isSome = true) :
    readBits n inp p = .ok (bitsVal inp p n, p + n) := by
  induction n generalizing p with
  | zero => simp [readBits, R.pure, bitsVal]
  | succ n ih =>
    have h0 := h 0 (by omega)
    simp only [Nat.add_zero] at h0
    cases hb : inp p with
    | none => simp [hb] at h0
    | some b =>
      have ih' := ih (p + 1) (fun i hi => by have := h (i + 1) (by omega); rwa [show p + (i + 1) = p + 1 + i by omega] at this)
      unfold readBits
      simp only [R.bind, readBit, hb, ih', R.pure, bitsVal, Option.getD_some]
      simp only [Except.ok.injEq, Prod.mk.injEq, true_and]; omega

theorem bitsVal_add (inp : Inp) (p a b : Nat) :
    bitsVal inp p (a + b) = bitsVal inp p a + 2 ^ a * bitsVal inp (p + a) b := by
  induction a generalizing p with
  | zero => simp [bitsVal]
  | succ a ih =>
    rw [show a + 1 + b = (a + b) + 1 by omega]
    simp only [bitsVal, ih (p + 1)]
    rw [show p + 1 + a = p + (a + 1) by omega, Nat.pow_succ]
    rw [Nat.mul_add, Nat.add_assoc]
    congr 1
    rw [← Nat.mul_assoc, Nat.mul_comm (2 ^ a) 2]

theorem inpOfBytes_bit (arr : Array UInt8) (k i : Nat) (hk : k < arr.size) (hi : i < 8) :
    inpOfBytes arr (8 * k + i) = some ((arr[k].toNat >>> i) % 2 == 1) := by
  unfold inpOfBytes
  have h1 : (8 * k + i) / 8 = k := by omega
  have h2 : (8 * k + i) % 8 = i := by omega
  simp only [h1, h2, hk, dite_true]

/-- the eight bits of a byte, least significant first, spell the byte -/
def bitsOf (n : Nat) : Nat :=
  ((n >>> 0) % 2 == 1 : Bool).toNat + 2 * (((n >>> 1) % 2 == 1 : Bool).toNat +
    2 * (((n >>> 2) % 2 == 1 : Bool).toNat + 2 * (((n >>> 3) % 2 == 1 : Bool).toNat +
    2 * (((n >>> 4) % 2 == 1 : Bool).toNat + 2 * (((n >>> 5) % 2 == 1 : Bool).toNat +
    2 * (((n >>> 6) % 2 == 1 : Bool).toNat + 2 * (((n >>> 7) % 2 == 1 : Bool).toNat + 2 * 0)))))))

theorem bitsOf_lt : ∀ n, n < 256 → bitsOf n = n := by decide +kernel

theorem byte_bits (b : UInt8) : bitsOf b.toNat = b.toNat := bitsOf_lt b.toNat b.toNat_lt

/-- a byte read at a byte boundary is that byte -/
theorem bitsVal_byte (arr : Array UInt8) (k : Nat) (hk : k < arr.size) :
    bitsVal (inpOfBytes arr) (8 * k) 8 = arr[k].toNat := by
  have hb : ∀ i, i < 8 → inpOfBytes arr (8 * k + i) = some ((arr[k].toNat >>> i) % 2 == 1) :=
    fun i hi => inpOfBytes_bit arr k i hk hi
  have e0 := hb 0 (by omega); have e1 := hb 1 (by omega); have e2 := hb 2 (by omega); have e3 := hb 3 (by omega)
  have e4 := hb 4 (by omega); have e5 := hb 5 (by omega); have e6 := hb 6 (by omega); have e7 := hb 7 (by omega)
  simp only [Nat.add_zero] at e0
  simp only [bitsVal, e0, Nat.add_assoc, Nat.reduceAdd, e1, e2, e3, e4, e5, e6, e7, Option.getD_some]
  exact byte_bits arr[k]

theorem readByte_eq (arr : Array UInt8) (k : Nat) (hk : k < arr.size) :
    readByte (inpOfBytes arr) (8 * k) = .ok (arr[k], 8 * k + 8) := by
  unfold readByte
  have hs : ∀ i, i < 8 → (inpOfBytes arr (8 * k + i)).isSome = true := by
    intro i hi; rw [inpOfBytes_bit arr k i hk hi]; rfl
  simp only [R.bind, readBits_eq _ 8 (8 * k) hs, R.pure, bitsVal_byte arr k hk]
  simp
