import Hm.DynBlock

/-! Every DEFLATE stream: any sequence of stored, fixed-Huffman and dynamic-Huffman blocks (any valid tables, any
    symbols) is inflated to the expansion of its blocks. -/

/-! ### stored blocks at bit level -/

theorem bitsLSB_zero (n : Nat) : bitsLSB n 0 = List.replicate n false := by
  induction n with
  | zero => rfl
  | succ n ih => simp [bitsLSB, ih, List.replicate_succ]

def byteBits (d : Bytes) : List Bool := d.flatMap fun b => bitsLSB 8 b.toNat

theorem byteBits_length (d : Bytes) : (byteBits d).length = 8 * d.length := by
  induction d with
  | nil => rfl
  | cons b rest ih => simp only [byteBits, List.flatMap_cons, List.length_append, bitsLSB_length, List.length_cons] at ih ⊢; omega

theorem readBytes_carries : ∀ (d : Bytes) (i : Inp) (p : Nat), Carries i p (byteBits d) →
    readBytes d.length i p = .ok (d, p + 8 * d.length)
  | [], i, p, _ => by simp [readBytes, R.pure]
  | b :: rest, i, p, hc => by
    simp only [byteBits, List.flatMap_cons] at hc
    have hr := readBits_carries 8 b.toNat i p b.toNat_lt hc.append_left
    have c1 := hc.append_right
    simp only [bitsLSB_length] at c1
    have ih := readBytes_carries rest i (p + 8) c1
    simp only [List.length_cons, readBytes, readByte, R.bind, hr, R.pure, ih, Except.ok.injEq, Prod.mk.injEq]
    exact ⟨by simp, by omega⟩

/-- padding up to the byte boundary, LEN, NLEN, the bytes — what follows the three header bits of a stored block
    whose header starts at bit `q - 3` -/
def storedBody (q : Nat) (d : Bytes) : List Bool :=
  List.replicate ((8 - q % 8) % 8) false ++ (bitsLSB 16 d.length ++ (bitsLSB 16 (65535 - d.length) ++ byteBits d))

theorem foldl_push (d : Bytes) (out : Array UInt8) : d.foldl Array.push out = out ++ d.toArray := by
  induction d generalizing out with
  | nil => simp
  | cons b rest ih => simp only [List.foldl_cons]; rw [ih]; apply Array.ext'; simp

theorem storedBlock_spec (d : Bytes) (hlen : d.length ≤ 65535) (out : Array UInt8) (i : Inp) (q : Nat)
    (hc : Carries i q (storedBody q d)) :
    storedBlock out i q = .ok (out ++ d.toArray, q + (storedBody q d).length) := by
  unfold storedBlock alignRead
  simp only [storedBody] at hc ⊢
  have hpad : Carries i q (bitsLSB ((8 - q % 8) % 8) 0) := by rw [bitsLSB_zero]; exact hc.append_left
  have r0 := readBits_carries ((8 - q % 8) % 8) 0 i q (Nat.two_pow_pos _) hpad
  have c1 := hc.append_right
  simp only [List.length_replicate] at c1
  have r1 := readBits_carries 16 d.length i _ (by omega) c1.append_left
  have c2 := c1.append_right
  simp only [bitsLSB_length] at c2
  have r2 := readBits_carries 16 (65535 - d.length) i _ (by omega) c2.append_left
  have c3 := c2.append_right
  simp only [bitsLSB_length] at c3
  have r3 := readBytes_carries d i _ c3
  have hsum : ¬ (d.length + (65535 - d.length) ≠ 65535) := by omega
  simp only [R.bind, getPos, r0, R.pure, r1, r2, hsum, if_false, r3, foldl_push]
  simp only [List.length_append, List.length_replicate, bitsLSB_length, byteBits_length, Except.ok.injEq, Prod.mk.injEq, true_and]
  omega

/-! ### blocks -/

inductive Block where
  | stored (d : Bytes)
  | fixed (toks : List Tok)
  | dyn (h : DynHdr) (lens : List Nat) (toks : List Tok)

/-- what an encoder must respect -/
def Block.Ok : Block → Prop
  | .stored d => d.length ≤ 65535
  | .fixed toks => ∀ t ∈ toks, t.okIn fixedBook
  | .dyn h lens toks => ∃ hd : h.Describes lens,
      (dynBook _ _ hd.lit_valid hd.dist_valid).litOk 256 ∧ ∀ t ∈ toks, t.okIn (dynBook _ _ hd.lit_valid hd.dist_valid)

/-- the code words of a dynamic block's symbols: canonical codes of the two declared tables -/
def dynCodes (h : DynHdr) (lens : List Nat) (toks : List Tok) : List Bool :=
  codesBitsRaw (canonBits (lens.take (h.hlit + 257))) (canonBits (lens.drop (h.hlit + 257))) toks

/-- the bits of a block whose first bit is bit `p` of the stream -/
def Block.bits (p : Nat) (final : Bool) : Block → List Bool
  | .stored d => final :: false :: false :: storedBody (p + 3) d
  | .fixed toks => final :: true :: false :: codesBits fixedBook toks
  | .dyn h lens toks => final :: false :: true :: (dynHdrBits h ++ dynCodes h lens toks)

def Block.apply (out : Array UInt8) : Block → Array UInt8
  | .stored d => out ++ d.toArray
  | .fixed toks => toks.foldl tokApply out
  | .dyn _ _ toks => toks.foldl tokApply out

def Block.symbols : Block → Nat
  | .stored _ => 0
  | .fixed toks => toks.length
  | .dyn _ _ toks => toks.length

theorem header_read (i : Inp) (p : Nat) (final b0 b1 : Bool) (rest : List Bool) (hc : Carries i p (final :: b0 :: b1 :: rest)) :
    readBit i p = .ok (final, p + 1) ∧ readBits 2 i (p + 1) = .ok (b0.toNat + 2 * b1.toNat, p + 3) ∧ Carries i (p + 3) rest := by
  have h0 := hc 0 (by simp)
  have h1 := hc 1 (by simp)
  have h2 := hc 2 (by simp)
  simp only [List.getElem_cons_zero, List.getElem_cons_succ, Nat.add_zero] at h0 h1 h2
  refine ⟨by simp [readBit, h0], ?_, ?_⟩
  · unfold readBits readBits readBits
    simp only [R.bind, readBit, h1, show p + 1 + 1 = p + 2 by omega, h2, R.pure]
    simp
  · have := Carries.append_right (a := [final, b0, b1]) (b := rest) (by simpa using hc)
    simpa using this

theorem block_step (symFuel fuel : Nat) (final : Bool) (b : Block) (hok : b.Ok) (hsym : b.symbols < symFuel)
    (out : Array UInt8) (i : Inp) (p : Nat) (hc : Carries i p (b.bits p final)) :
    inflateBlocks symFuel (fuel + 1) out i p =
      (if final then .ok (b.apply out, p + (b.bits p final).length)
       else inflateBlocks symFuel fuel (b.apply out) i (p + (b.bits p final).length)) := by
  conv => lhs; unfold inflateBlocks
  cases b with
  | stored d =>
    simp only [Block.bits] at hc ⊢
    obtain ⟨hb, hty, hrest⟩ := header_read i p final false false _ hc
    have hs := storedBlock_spec d hok out i (p + 3) hrest
    simp only [R.bind, hb, hty, Bool.toNat_false, Nat.mul_zero, Nat.add_zero, if_true, hs, Block.apply]
    have hl : p + 3 + (storedBody (p + 3) d).length = p + (final :: false :: false :: storedBody (p + 3) d).length := by
      simp only [List.length_cons]; omega
    rw [hl]
    cases final <;> simp [R.pure]
  | fixed toks =>
    simp only [Block.bits] at hc ⊢
    obtain ⟨hb, hty, hrest⟩ := header_read i p final true false _ hc
    have hs := inflateCodes_book fixedBook (by show 256 < 288; omega) toks symFuel out i (p + 3) hok hsym hrest
    have h10 : ¬ ((1 : Nat) = 0) := by omega
    simp only [R.bind, hb, hty, Bool.toNat_true, Bool.toNat_false, Nat.mul_zero, Nat.add_zero, h10, if_false, if_true, Block.apply]
    have hfb : inflateCodes fixedLit fixedDist symFuel out i (p + 3) = inflateCodes fixedBook.lit fixedBook.dist symFuel out i (p + 3) := rfl
    rw [hfb, hs]
    have hl : p + 3 + (codesBits fixedBook toks).length = p + (final :: true :: false :: codesBits fixedBook toks).length := by
      simp only [List.length_cons]; omega
    rw [hl]
    cases final <;> simp [R.pure]
  | dyn h lens toks =>
    obtain ⟨hd, heob, hv⟩ := hok
    have hcodes : dynCodes h lens toks = codesBits (dynBook _ _ hd.lit_valid hd.dist_valid) toks := rfl
    simp only [Block.bits, hcodes] at hc ⊢
    obtain ⟨hb, hty, hrest⟩ := header_read i p final false true _ hc
    have hs := dynamicBlock_spec h lens hd toks symFuel out i (p + 3) heob hv hsym hrest
    have h20 : ¬ ((2 : Nat) = 0) := by omega
    have h21 : ¬ ((2 : Nat) = 1) := by omega
    simp only [R.bind, hb, hty, Bool.toNat_true, Bool.toNat_false, Nat.mul_one, Nat.zero_add, h20, h21, if_false, if_true, hs, Block.apply]
    have hl : p + 3 + (dynHdrBits h ++ codesBits (dynBook _ _ hd.lit_valid hd.dist_valid) toks).length
        = p + (final :: false :: true :: (dynHdrBits h ++ codesBits (dynBook _ _ hd.lit_valid hd.dist_valid) toks)).length := by
      simp only [List.length_cons]; omega
    rw [hl]
    cases final <;> simp [R.pure]

/-- a stream of blocks starting at bit `p`; the last one carries BFINAL -/
def blocksBits : Nat → List Block → List Bool
  | _, [] => []
  | p, [b] => b.bits p true
  | p, b :: b2 :: rest => b.bits p false ++ blocksBits (p + (b.bits p false).length) (b2 :: rest)

def expandBlocks (out : Array UInt8) (blocks : List Block) : Array UInt8 := blocks.foldl Block.apply out

theorem inflateBlocks_blocks (symFuel : Nat) : ∀ (blocks : List Block) (fuel : Nat) (out : Array UInt8) (i : Inp) (p : Nat),
    blocks ≠ [] → (∀ b ∈ blocks, b.Ok ∧ b.symbols < symFuel) → blocks.length ≤ fuel →
    Carries i p (blocksBits p blocks) →
    inflateBlocks symFuel fuel out i p = .ok (expandBlocks out blocks, p + (blocksBits p blocks).length) := by
  intro blocks
  induction blocks with
  | nil => intro fuel out i p hne; exact absurd rfl hne
  | cons b rest ih =>
    intro fuel out i p _ hv hf hc
    cases fuel with
    | zero => simp at hf
    | succ fuel =>
      have hb := hv b (by simp)
      cases rest with
      | nil =>
        simp only [blocksBits] at hc ⊢
        rw [block_step symFuel fuel true b hb.1 hb.2 out i p hc]
        simp [expandBlocks]
      | cons b2 rest2 =>
        simp only [blocksBits] at hc ⊢
        rw [block_step symFuel fuel false b hb.1 hb.2 out i p hc.append_left]
        simp only [Bool.false_eq_true, if_false]
        have := ih fuel (b.apply out) i (p + (b.bits p false).length) (by simp)
          (fun x hx => hv x (by simp [hx])) (by simp at hf ⊢; omega) hc.append_right
        rw [this]
        simp only [expandBlocks, List.foldl_cons, List.length_append, Except.ok.injEq, Prod.mk.injEq, true_and]
        omega
