import Hm.Generic

/-! the documented calling protocol, generically, and delivery independence -/

inductive GVerdict (ε : Type) where
  | more | complete | failed (e : ε)

def GVerdict.isFailed : GVerdict ε → Bool | .failed _ => true | _ => false

structure GConn (ε σ : Type) where
  st : σ
  pending : Bytes
  total : Nat
  verdict : GVerdict ε

namespace Sys
variable {ε σ : Type} (M : Sys ε σ)

/-- unconsumed bytes are re-presented in front of the new ones; stop at the first completion or failure -/
def deliver (c : GConn ε σ) (d : Bytes) : GConn ε σ :=
  match c.verdict with
  | .more =>
    match M.parse c.st (c.pending ++ d) with
    | .fail e => { c with verdict := .failed e }
    | .ok .complete s' n => { st := s', pending := (c.pending ++ d).drop n, total := c.total + n, verdict := .complete }
    | .ok .incomplete s' n => { st := s', pending := (c.pending ++ d).drop n, total := c.total + n, verdict := .more }
  | _ => c

def run (c : GConn ε σ) (ds : List Bytes) : GConn ε σ := ds.foldl M.deliver c

/-- same verdict class; same state and same number of consumed bytes unless failed -/
def Equiv (a b : GConn ε σ) : Prop :=
  (a.verdict.isFailed = true ∧ b.verdict.isFailed = true) ∨
  (a.verdict.isFailed = false ∧ b.verdict.isFailed = false ∧
    (match a.verdict, b.verdict with
     | .more, .more => True | .complete, .complete => True | _, _ => False) ∧
    a.st = b.st ∧ a.total = b.total)

variable {M} {Inv : σ → Prop}

theorem Equiv.refl (a : GConn ε σ) : Equiv a a := by
  unfold Equiv
  cases h : a.verdict <;> simp [GVerdict.isFailed]

theorem Equiv.trans {a b c : GConn ε σ} (h1 : Equiv a b) (h2 : Equiv b c) : Equiv a c := by
  unfold Equiv at *
  rcases h1 with ⟨ha, hb⟩ | ⟨ha, hb, hm, hs, ht⟩
  · rcases h2 with ⟨_, hc⟩ | ⟨hb', _⟩
    · exact Or.inl ⟨ha, hc⟩
    · simp [hb] at hb'
  · rcases h2 with ⟨hb', _⟩ | ⟨_, hc, hm2, hs2, ht2⟩
    · simp [hb] at hb'
    · refine Or.inr ⟨ha, hc, ?_, hs.trans hs2, ht.trans ht2⟩
      cases hav : a.verdict <;> cases hbv : b.verdict <;> cases hcv : c.verdict <;> simp_all

theorem run_of_not_more {c : GConn ε σ} (h : ∀ _ : c.verdict = .more, False) (ds : List Bytes) :
    M.run c ds = c := by
  induction ds with
  | nil => rfl
  | cons d ds ih =>
    unfold run at *
    simp only [List.foldl_cons]
    have : M.deliver c d = c := by
      unfold deliver
      cases hv : c.verdict with
      | more => exact absurd hv (fun h' => h h')
      | complete => rfl
      | failed e => rfl
    rw [this]; exact ih

/-- delivery independence: any segmentation of a stream ends like the one-piece delivery -/
theorem run_flatten (L : M.Lawful Inv) (c : GConn ε σ) (hI : Inv c.st) (d : Bytes) (ds : List Bytes) :
    Equiv (M.run c (d :: ds)) (M.run c [d ++ ds.flatten]) := by
  induction ds generalizing c d with
  | nil => simp; exact Equiv.refl _
  | cons d2 rest ih =>
    cases hv : c.verdict with
    | complete =>
      rw [run_of_not_more (by simp [hv]), run_of_not_more (by simp [hv])]; exact Equiv.refl _
    | failed e =>
      rw [run_of_not_more (by simp [hv]), run_of_not_more (by simp [hv])]; exact Equiv.refl _
    | more =>
      have hX : (d2 :: rest).flatten = d2 ++ rest.flatten := by simp
      have hrun : M.run c (d :: d2 :: rest) = M.run (M.deliver c d) (d2 :: rest) := by simp [run]
      have hone : M.run c [d ++ (d2 :: rest).flatten] = M.deliver c (d ++ (d2 :: rest).flatten) := by simp [run]
      rw [hrun, hone]
      have hbuf : c.pending ++ (d ++ (d2 :: rest).flatten) = (c.pending ++ d) ++ (d2 :: rest).flatten := by simp
      cases hp : M.parse c.st (c.pending ++ d) with
      | fail e =>
        obtain ⟨e', he'⟩ := parse_append_fail L hI hp (d2 :: rest).flatten
        have h1 : M.deliver c d = { c with verdict := .failed e } := by simp [deliver, hv, hp]
        have h2 : M.deliver c (d ++ (d2 :: rest).flatten) = { c with verdict := .failed e' } := by
          simp only [deliver, hv, hbuf, he']
        rw [h1, h2, run_of_not_more (by simp)]
        exact Or.inl ⟨rfl, rfl⟩
      | ok st s' n =>
        cases st with
        | complete =>
          have hc := parse_append_complete L hI hp (d2 :: rest).flatten
          have h1 : M.deliver c d = { st := s', pending := (c.pending ++ d).drop n, total := c.total + n, verdict := .complete } := by
            simp [deliver, hv, hp]
          have h2 : M.deliver c (d ++ (d2 :: rest).flatten) =
              { st := s', pending := ((c.pending ++ d) ++ (d2 :: rest).flatten).drop n, total := c.total + n, verdict := .complete } := by
            simp only [deliver, hv, hbuf, hc]
          rw [h1, h2, run_of_not_more (by simp)]
          exact Or.inr ⟨rfl, rfl, by simp, rfl, rfl⟩
        | incomplete =>
          have hc := parse_append_incomplete L hI hp (d2 :: rest).flatten
          have hI' := (parse_inv L hI hp).1 rfl
          have h1 : M.deliver c d = { st := s', pending := (c.pending ++ d).drop n, total := c.total + n, verdict := .more } := by
            simp [deliver, hv, hp]
          rw [h1]
          -- one-piece delivery from `c` equals one-piece delivery of the rest from the resumed connection
          refine Equiv.trans (ih _ hI' d2) ?_
          have hres : M.run { st := s', pending := (c.pending ++ d).drop n, total := c.total + n, verdict := GVerdict.more } [d2 ++ rest.flatten]
              = M.deliver { st := s', pending := (c.pending ++ d).drop n, total := c.total + n, verdict := GVerdict.more } (d2 ++ rest.flatten) := by
            simp [run]
          rw [hres, ← hX]
          unfold deliver
          simp only [hv, hbuf, hc]
          cases hr : M.parse s' ((c.pending ++ d).drop n ++ (d2 :: rest).flatten) with
          | fail e => exact Or.inl ⟨rfl, rfl⟩
          | ok st2 s2 m =>
            cases st2 with
            | complete => exact Or.inr ⟨rfl, rfl, by simp [PRes.shift], rfl, by simp [PRes.shift]; omega⟩
            | incomplete => exact Or.inr ⟨rfl, rfl, by simp [PRes.shift], rfl, by simp [PRes.shift]; omega⟩

end Sys
