import Hm.HeaderAlgebra

/-! src/coding.rs::decode_body, parametric in the two stream decoders -/

def kContentEncoding : Bytes := [67, 111, 110, 116, 101, 110, 116, 45, 69, 110, 99, 111, 100, 105, 110, 103]
#guard kContentEncoding = str "Content-Encoding"
def kGzip : Bytes := [103, 122, 105, 112]
#guard kGzip = str "gzip"
def kDeflate : Bytes := [100, 101, 102, 108, 97, 116, 101]
#guard kDeflate = str "deflate"

/-- the `while let Some(coding) = codings.pop()` loop, on the reversed token list; `none` = a decoder failed -/
def decodeRev (gz fl : Bytes → Option Bytes) : List Bytes → Bytes → Option (List Bytes × Bytes)
  | [], body => some ([], body)
  | c :: rest, body =>
    if c = kGzip then (gz body).bind (decodeRev gz fl rest)
    else if c = kDeflate then (fl body).bind (decodeRev gz fl rest)
    else some (c :: rest, body)

/-- returns the header list in both cases, so that "untouched on failure" is a statement -/
def decodeBody (gz fl : Bytes → Option Bytes) (hs : List Header) (body : Bytes) : List Header × Option Bytes :=
  match decodeRev gz fl (headerTokens hs kContentEncoding).reverse body with
  | none => (hs, none)
  | some (keepRev, out) =>
    let keep := keepRev.reverse
    let hs1 := if keep.isEmpty then removeHeader hs kContentEncoding
               else setHeader hs kContentEncoding (joinWith [COMMA, SP] keep)
    (setHeader hs1 kContentLength (natToDec out.length), some out)

variable {gz fl : Bytes → Option Bytes}

def known (c : Bytes) : Bool := c == kGzip || c == kDeflate
def undo1 (gz fl : Bytes → Option Bytes) (c : Bytes) (b : Bytes) : Option Bytes :=
  if c = kGzip then gz b else if c = kDeflate then fl b else none

/-- what the loop computes: a split of the (reversed) token list into an undone, all-known prefix and a
    kept rest that is empty or starts with an unknown coding; the body is decoded through the prefix -/
theorem decodeRev_spec {toks keepRev : List Bytes} {body out : Bytes}
    (h : decodeRev gz fl toks body = some (keepRev, out)) :
    ∃ undone, toks = undone ++ keepRev ∧ (∀ c ∈ undone, known c = true) ∧
      (∀ c rest, keepRev = c :: rest → known c = false) ∧
      undone.foldl (fun b c => b.bind (undo1 gz fl c)) (some body) = some out := by
  induction toks generalizing body with
  | nil => simp [decodeRev] at h; obtain ⟨rfl, rfl⟩ := h; exact ⟨[], by simp⟩
  | cons c rest ih =>
    unfold decodeRev at h
    by_cases hg : c = kGzip
    · simp only [hg, if_true] at h
      cases hb : gz body with
      | none => simp [hb] at h
      | some b1 =>
        simp only [hb, Option.bind_some] at h
        obtain ⟨undone, h1, h2, h3, h4⟩ := ih h
        refine ⟨kGzip :: undone, by simp [hg, h1], ?_, h3, ?_⟩
        · intro x hx; simp at hx; rcases hx with rfl | hx
          · simp [known]
          · exact h2 x hx
        · simp [undo1, hb, h4]
    · by_cases hd : c = kDeflate
      · simp only [hg, hd, if_false, if_true] at h
        have hne : kDeflate ≠ kGzip := by decide
        simp only [hne, if_false] at h
        cases hb : fl body with
        | none => simp [hb] at h
        | some b1 =>
          simp only [hb, Option.bind_some] at h
          obtain ⟨undone, h1, h2, h3, h4⟩ := ih h
          refine ⟨kDeflate :: undone, by simp [hd, h1], ?_, h3, ?_⟩
          · intro x hx; simp at hx; rcases hx with rfl | hx
            · simp [known]
            · exact h2 x hx
          · simp [undo1, hne, hb, h4]
      · simp only [hg, hd, if_false] at h
        simp at h; obtain ⟨rfl, rfl⟩ := h
        refine ⟨[], by simp, by simp, ?_, by simp⟩
        intro c' rest' hc; simp at hc; obtain ⟨rfl, _⟩ := hc
        simp [known, hg, hd]

theorem kCL_ne_kCE : nameEq kContentLength kContentEncoding = false := by decide
theorem kCE_ne_kCL : nameEq kContentEncoding kContentLength = false := by decide

/-- C14, failure: the headers come back exactly as they were given -/
theorem C14_failure_atomic (hs : List Header) (body : Bytes)
    (h : (decodeBody gz fl hs body).2 = none) : (decodeBody gz fl hs body).1 = hs := by
  unfold decodeBody at h ⊢
  cases hd : decodeRev gz fl (headerTokens hs kContentEncoding).reverse body with
  | none => rfl
  | some r => simp [hd] at h

/-- C14, success: Content-Length has the single value "length of the returned body" -/
theorem C14_content_length (hs : List Header) (body out : Bytes)
    (h : (decodeBody gz fl hs body).2 = some out) :
    headerMultiValue (decodeBody gz fl hs body).1 kContentLength = [natToDec out.length] := by
  unfold decodeBody at h ⊢
  cases hd : decodeRev gz fl (headerTokens hs kContentEncoding).reverse body with
  | none => simp [hd] at h
  | some r =>
    obtain ⟨keepRev, out'⟩ := r
    simp only [hd, Option.some.injEq] at h ⊢
    subst h
    exact setHeader_multi_self _ _ _

/-- C14, success: every header named neither Content-Encoding nor Content-Length is unchanged, in order -/
theorem C14_others_unchanged (hs : List Header) (body out : Bytes)
    (h : (decodeBody gz fl hs body).2 = some out) (p : Header → Bool)
    (hp : ∀ x, p x = true → nameEq x.name kContentEncoding = false ∧ nameEq x.name kContentLength = false) :
    (decodeBody gz fl hs body).1.filter p = hs.filter p := by
  unfold decodeBody at h ⊢
  cases hd : decodeRev gz fl (headerTokens hs kContentEncoding).reverse body with
  | none => simp [hd] at h
  | some r =>
    obtain ⟨keepRev, out'⟩ := r
    simp only [hd]
    rw [setHeader_others _ _ _ p (fun x hx => (hp x hx).2)]
    split
    · exact removeHeader_others _ _ p (fun x hx => (hp x hx).1)
    · exact setHeader_others _ _ _ p (fun x hx => (hp x hx).1)

/-- C14, success: Content-Encoding lists exactly the kept codings, or is gone when none is kept -/
theorem C14_content_encoding (hs : List Header) (body out : Bytes)
    (h : (decodeBody gz fl hs body).2 = some out) :
    ∃ keep undone, headerTokens hs kContentEncoding = keep ++ undone ∧
      (∀ c ∈ undone, known c = true) ∧ (∀ c, keep.getLast? = some c → known c = false) ∧
      undone.reverse.foldl (fun b c => b.bind (undo1 gz fl c)) (some body) = some out ∧
      (keep = [] → hasHeader (decodeBody gz fl hs body).1 kContentEncoding = false) ∧
      (keep ≠ [] → headerMultiValue (decodeBody gz fl hs body).1 kContentEncoding = [joinWith [COMMA, SP] keep]) := by
  unfold decodeBody at h ⊢
  cases hd : decodeRev gz fl (headerTokens hs kContentEncoding).reverse body with
  | none => simp [hd] at h
  | some r =>
    obtain ⟨keepRev, out'⟩ := r
    simp only [hd, Option.some.injEq] at h ⊢
    subst h
    obtain ⟨undone, h1, h2, h3, h4⟩ := decodeRev_spec hd
    refine ⟨keepRev.reverse, undone.reverse, ?_, ?_, ?_, by simpa using h4, ?_, ?_⟩
    · have := congrArg List.reverse h1; simpa using this
    · intro c hc; exact h2 c (by simpa using hc)
    · intro c hc
      cases keepRev with
      | nil => simp at hc
      | cons k ks => simp at hc; subst hc; exact h3 k ks rfl
    · intro hk
      have hk' : keepRev.reverse.isEmpty = true := by simp [hk]
      simp only [hk', if_true]
      have hmv : headerMultiValue (setHeader (removeHeader hs kContentEncoding) kContentLength (natToDec out'.length)) kContentEncoding
          = headerMultiValue (removeHeader hs kContentEncoding) kContentEncoding :=
        multi_of_others kCE_ne_kCL (fun p hp => setHeader_others _ _ _ p hp)
      cases hh : hasHeader (setHeader (removeHeader hs kContentEncoding) kContentLength (natToDec out'.length)) kContentEncoding with
      | false => rfl
      | true =>
        have := hasHeader_iff_multi.mp hh
        rw [hmv, removeHeader_multi_self] at this
        exact absurd rfl this
    · intro hk
      have hk' : keepRev.reverse.isEmpty = false := by
        cases hr : keepRev.reverse with
        | nil => exact absurd hr hk
        | cons a as => rfl
      simp only [hk']
      rw [multi_of_others kCE_ne_kCL (fun p hp => setHeader_others _ _ _ p hp)]
      exact setHeader_multi_self _ _ _
