import Hm.RespProps
import Hm.C07Rewrite

/-! The header line limit of a `Response` is set through its public `headers` field and may be changed between two
    `parse` calls.  C06 and C07 for responses, with a different limit at every call (the parser's invariant does not
    mention the limit, so the proofs of the fixed-limit theorems go through call by call). -/

/-- the calling protocol with the header line limit the caller has set before each call -/
def respRunV (c : GConn Fail RespState) (steps : List (Option Nat × Bytes)) : GConn Fail RespState :=
  steps.foldl (fun c p => (respSys p.1).deliver c p.2) c

def RespConnOk (c : GConn Fail RespState) : Prop :=
  ((match c.verdict with | .more => True | _ => False) → RespInv c.st) ∧
  ∀ e, c.verdict = .failed e → ∃ cat, e = .err cat

theorem resp_deliver_ok (hl : Option Nat) {c : GConn Fail RespState} (hc : RespConnOk c) (d : Bytes) :
    RespConnOk ((respSys hl).deliver c d) := by
  unfold Sys.deliver
  cases hv : c.verdict with
  | complete => simpa [RespConnOk, hv] using hc
  | failed e => simpa [RespConnOk, hv] using hc
  | more =>
    simp only
    have hI : RespInv c.st := hc.1 (by simp [hv])
    cases hp : (respSys hl).parse c.st (c.pending ++ d) with
    | fail e =>
      refine ⟨by simp, ?_⟩
      intro e' he'
      simp at he'; subst he'
      unfold Sys.parse at hp
      cases hlo : (respSys hl).loop ((respSys hl).μ c.st (c.pending ++ d).length) c.st (c.pending ++ d) 0 with
      | none =>
        have := Sys.loop_isSome (respSys_lawful hl) hI (Nat.le_refl _) (acc := 0) (rem := c.pending ++ d)
        rw [hlo] at this; simp at this
      | some r => simp only [hlo] at hp; subst hp; exact respLoop_no_panic hI hlo
    | ok st s' n =>
      have := (Sys.parse_inv (respSys_lawful hl) hI hp).1
      cases st with
      | complete => exact ⟨by simp, by simp⟩
      | incomplete => exact ⟨fun _ => this rfl, by simp⟩

/-- **C06 for responses with the header line limit changed between calls** -/
theorem C06_response_no_crash_limits_vary (steps : List (Option Nat × Bytes)) :
    ∀ e, (respRunV respFresh steps).verdict = .failed e → ∃ cat, e = .err cat := by
  have h0 : RespConnOk respFresh := ⟨fun _ => respInv_new, by simp [respFresh]⟩
  suffices ∀ c, RespConnOk c → RespConnOk (respRunV c steps) from (this _ h0).2
  induction steps with
  | nil => intro c hc; exact hc
  | cons p ps ih => intro c hc; exact ih _ (resp_deliver_ok p.1 hc p.2)

/-- **C07 for responses with the header line limit changed between calls**: the payload buffers (body and
    de-chunking buffer) never exceed the bytes consumed, whatever limit is in force at which call -/
theorem C07_response_payload_limits_vary (steps : List (Option Nat × Bytes)) :
    respPayload (respRunV respFresh steps).st ≤ 2 + (respRunV respFresh steps).total := by
  have h0 : respRetained Response.new = 2 := by simp [respRetained, Response.new, hdrSize, kOk]
  -- retained bytes, with the rewritten header list allowed once the message is complete
  suffices ∀ c : GConn Fail RespState, c.verdict.isComplete = false →
      respRetained (respRunV c steps).st + c.total ≤ respRetained c.st + (respRunV c steps).total +
        (if (respRunV c steps).verdict.isComplete then hdrSize (respRunV c steps).st.headers else 0) by
    have h := this respFresh (by simp [respFresh, GVerdict.isComplete])
    have e1 : respFresh.total = 0 := rfl
    have e2 : respFresh.st = Response.new := rfl
    rw [e1, e2, h0] at h
    have hp := respPayload_le (respRunV respFresh steps).st
    split at h <;> omega
  induction steps with
  | nil => intro c _; simp [respRunV]
  | cons p ps ih =>
    intro c hc
    have e : respRunV c (p :: ps) = respRunV ((respSys p.1).deliver c p.2) ps := by simp [respRunV]
    rw [e]
    have h1 := Sys.deliver_size (respStep_grows p.1) c p.2
    have hm := Sys.deliver_total_mono (M := respSys p.1) c p.2
    by_cases hd : ((respSys p.1).deliver c p.2).verdict.isComplete = true
    · have hstay : respRunV ((respSys p.1).deliver c p.2) ps = (respSys p.1).deliver c p.2 := by
        clear ih h1 hm e
        induction ps with
        | nil => rfl
        | cons q qs ih2 =>
          simp only [respRunV, List.foldl_cons] at ih2 ⊢
          rw [Sys.deliver_complete_stays hd]; exact ih2
      rw [hstay]
      simp [hd, hc] at h1 ⊢
      omega
    · have hd' : ((respSys p.1).deliver c p.2).verdict.isComplete = false := by simpa using hd
      have h2 := ih _ hd'
      simp [hd'] at h1
      omega
