import Hm.C02
import Hm.ReqLaws5

/-! C09: a completed parse consumes exactly one message; pipelined messages split at the same offsets -/

namespace Sys
variable {ε σ : Type} (M : Sys ε σ)

/-- parse messages back to back on one buffer, each with a fresh parser `init`; stop after `k` messages
    or at the first parse that does not complete -/
def parseSeq (init : σ) : Nat → Bytes → List (σ × Nat)
  | 0, _ => []
  | k + 1, buf =>
    match M.parse init buf with
    | .ok .complete s c => (s, c) :: parseSeq init k (buf.drop c)
    | _ => []

variable {M} {Inv : σ → Prop}

/-- if every message, sent alone, is parsed to `s` consuming all of it, then the concatenation —
    followed by anything — is split into the same parsed values at the same offsets -/
theorem pipeline (L : M.Lawful Inv) {init : σ} (hI : Inv init) (msgs : List (Bytes × σ))
    (h : ∀ p ∈ msgs, M.parse init p.1 = .ok .complete p.2 p.1.length) (t : Bytes) :
    M.parseSeq init msgs.length ((msgs.map (·.1)).flatten ++ t) = msgs.map fun p => (p.2, p.1.length) := by
  induction msgs with
  | nil => simp [parseSeq]
  | cons p rest ih =>
    have hp := h p (by simp)
    have hrest : ∀ q ∈ rest, M.parse init q.1 = .ok .complete q.2 q.1.length := fun q hq => h q (by simp [hq])
    simp only [List.map_cons, List.flatten_cons, List.length_cons, List.append_assoc]
    unfold parseSeq
    rw [parse_append_complete L hI hp]
    simp only [List.drop_left]
    rw [ih hrest]

end Sys

/-- C09 for requests (repaired tree) -/
theorem C09_request_pipeline (u : UriImpl) (cfg : ReqCfg) (msgs : List (Bytes × ReqState u))
    (h : ∀ p ∈ msgs, (requestSys u cfg).parse (Request.new u) p.1 = .ok .complete p.2 p.1.length) (t : Bytes) :
    (requestSys u cfg).parseSeq (Request.new u) msgs.length ((msgs.map (·.1)).flatten ++ t)
      = msgs.map fun p => (p.2, p.1.length) :=
  Sys.pipeline (requestSys_lawful cfg) (reqInv_new cfg) msgs h t

/-- C09 for responses (repaired tree, normalised boundary: for a declared-length body the boundary is
    the end of the body, i.e. bytes consumed minus bytes set aside as trailing data) -/
theorem C09_response_pipeline (hl : Option Nat) (msgs : List (Bytes × RespState))
    (h : ∀ p ∈ msgs, (respSys hl).parse Response.new p.1 = .ok .complete p.2 p.1.length) (t : Bytes) :
    (respSys hl).parseSeq Response.new msgs.length ((msgs.map (·.1)).flatten ++ t)
      = msgs.map fun p => (p.2, p.1.length) :=
  Sys.pipeline (respSys_lawful hl) respInv_new msgs h t

/-- C09 (first half) for requests, any limits: bytes after a complete request change nothing — same parsed value,
    same boundary (in particular a within-limit request is not rejected because of what follows it) -/
theorem C09_request_suffix_irrelevant (u : UriImpl) (cfg : ReqCfg) {s' : ReqState u} {raw : Bytes} {c : Nat}
    (h : (requestSys u cfg).parse (Request.new u) raw = .ok .complete s' c) (t : Bytes) :
    (requestSys u cfg).parse (Request.new u) (raw ++ t) = .ok .complete s' c :=
  Sys.parse_append_complete (requestSys_lawful cfg) (reqInv_new cfg) h t

/-- and the boundary lies inside the message: nothing of the suffix is consumed -/
theorem C09_request_boundary_within (u : UriImpl) (cfg : ReqCfg) {s' : ReqState u} {raw : Bytes} {c : Nat}
    (h : (requestSys u cfg).parse (Request.new u) raw = .ok .complete s' c) : c ≤ raw.length := by
  unfold Sys.parse at h
  cases hl : (requestSys u cfg).loop ((requestSys u cfg).μ (Request.new u) raw.length) (Request.new u) raw 0 with
  | none => simp [hl] at h
  | some r =>
    simp only [hl] at h; subst h
    have := (Sys.loop_consumed (requestSys_lawful cfg) (reqInv_new cfg) hl).2.1
    omega
