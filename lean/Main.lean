import Hm.Response
import Hm.ReqSys
import Hm.C02
import Hm.Coding
import Hm.Inflate
import Hm.Rhymuri
import Hm.Text
import Hm.C10Req
import Hm.C13EndToEnd
import Hm.BlockCheck
import Hm.Fold

def hexDigit (n : Nat) : Char := if n < 10 then Char.ofNat (48 + n) else Char.ofNat (87 + n)
def hex (bs : Bytes) : String := String.ofList (bs.flatMap fun b => [hexDigit (b.toNat / 16), hexDigit (b.toNat % 16)])
def hexVal (c : Char) : Option Nat :=
  if '0' ≤ c ∧ c ≤ '9' then some (c.toNat - 48) else if 'a' ≤ c ∧ c ≤ 'f' then some (c.toNat - 87) else none
def unhexL : List Char → Option Bytes
  | [] => some []
  | a :: b :: rest => do
    let x ← hexVal a; let y ← hexVal b; let r ← unhexL rest
    pure ((x * 16 + y).toUInt8 :: r)
  | _ => none
def unhex (s : String) : Option Bytes := if s = "." then some [] else unhexL s.toList

def optNat (s : String) : Option (Option Nat) :=
  if s = "-" then some none else match s.toNat? with
    | some n => if n ≤ usizeMax then some (some n) else none
    | none => none

/-- A limit field of REQ / RESP ops: `d` = left as `new()` made it, a leading `D` = constructed by
`Default::default()` (which is `new()`), `D` alone = and left as made; `dflt` is the constructor's value. -/
def optLim (dflt : Option Nat) (s : String) : Option (Option Nat) :=
  if s = "d" || s = "D" then some dflt
  else if s.startsWith "D" then optNat (s.drop 1).toString else optNat s

def herr : HErr → String
  | .HeaderLineTooLong => "HeaderLineTooLong" | .HeaderLineInvalidText => "HeaderLineInvalidText"
  | .HeaderLineMissingColon => "HeaderLineMissingColon"
  | .HeaderNameContainsIllegalCharacter => "HeaderNameContainsIllegalCharacter"
  | .HeaderValueContainsIllegalCharacter => "HeaderValueContainsIllegalCharacter"
  | .HeaderLineCouldNotBeFolded => "HeaderLineCouldNotBeFolded"

def cat : Cat → String
  | .ChunkSizeLineNotValidText => "ChunkSizeLineNotValidText" | .Headers e => s!"Headers({herr e})"
  | .InvalidChunkSize => "InvalidChunkSize" | .InvalidChunkTerminator => "InvalidChunkTerminator"
  | .InvalidContentLength => "InvalidContentLength" | .InvalidStatusCode => "InvalidStatusCode"
  | .MessageTooLong => "MessageTooLong" | .RequestLineNoMethodDelimiter => "RequestLineNoMethodDelimiter"
  | .RequestLineNoMethodOrExtraWhitespace => "RequestLineNoMethodOrExtraWhitespace"
  | .RequestLineNoTargetDelimiter => "RequestLineNoTargetDelimiter"
  | .RequestLineNoTargetOrExtraWhitespace => "RequestLineNoTargetOrExtraWhitespace"
  | .RequestLineNotValidText => "RequestLineNotValidText" | .RequestLineProtocol => "RequestLineProtocol"
  | .RequestLineTooLong => "RequestLineTooLong" | .RequestTargetUriInvalid => "RequestTargetUriInvalid"
  | .StatusCodeOutOfRange => "StatusCodeOutOfRange" | .StatusLineNoProtocolDelimiter => "StatusLineNoProtocolDelimiter"
  | .StatusLineNoStatusCodeDelimiter => "StatusLineNoStatusCodeDelimiter"
  | .StatusLineNotValidText => "StatusLineNotValidText" | .StatusLineProtocol => "StatusLineProtocol"
  | .Trailer e => s!"Trailer({herr e})"

def pk : PanicKind → String | .arithmetic => "arithmetic" | .capacity => "capacity" | .index => "index" | .alloc => "alloc"

def showHeaders (hs : List Header) : String :=
  ",".intercalate (hs.map fun h => hex h.name ++ ":" ++ hex h.value)
def showReserves (rs : List Reserve) : String :=
  ";".intercalate (rs.map fun r => s!"{r.site}:{r.len}:{r.additional}")

/-- URI oracle instance: answers recorded from the real rhymuri by the harness -/
def tableUri (tbl : List (Bytes × Option Bytes)) : UriImpl :=
  { U := Bytes, parse := fun t => (tbl.lookup t).join, display := id, default := [] }

def parseTable (s : String) : Option (List (Bytes × Option Bytes)) :=
  if s = "." then some [] else
  (s.splitOn ",").mapM fun e =>
    match e.splitOn "=" with
    | [k, v] => do
      let k ← unhex k
      if v = "!" then pure (k, none) else do let v ← unhex v; pure (k, some v)
    | _ => none


def uriStruct (u : Uri) : String :=
  let o (x : Option Bytes) : String := match x with | some v => hex v | none => "-"
  let a : String := match u.authority with
    | some a => s!"{o a.userinfo},{hex a.host},{match a.port with | some p => toString p | none => "-"}"
    | none => "-"
  s!"s={o u.scheme};a={a};p={"/".intercalate (u.path.map hex)}|{u.path.length};q={o u.query};f={o u.fragment}"

/-- the driver runs the concrete `rhymuri` instance, so the target can be shown component by component -/
def reqFields (st : ReqState rhymuriImpl) : String :=
  s!"m={hex st.method} t={hex (Rhymuri.display st.target)} u={uriStruct st.target} h={showHeaders st.headers} b={hex st.body}"
def respFields (st : RespState) (extra : Bytes := []) : String :=
  s!"c={st.statusCode} p={hex st.reasonPhrase} h={showHeaders st.headers} b={hex st.body} x={hex (st.trailer ++ extra)}"

def joinAcc (acc : List String) : String := " ".intercalate acc.reverse

/-- the documented calling protocol, on the instrumented model (`Request.parse`: both trees, reservation log).
    Result: text, reservation log, final state when complete -/
def runReq (cfg : ReqCfg) : List Bytes → ReqState rhymuriImpl → Bytes → List String → List Reserve →
    String × List Reserve × Option (ReqState rhymuriImpl)
  | [], s, _, acc, rs => (joinAcc acc ++ " | " ++ reqFields s, rs, none)
  | d :: ds, s, pending, acc, rs =>
    let buf := pending ++ d
    match Request.parse rhymuriImpl cfg s buf with
    | .err c => (joinAcc (s!"E:{cat c}" :: acc), rs, none)
    | .panic k => (joinAcc (s!"P:{pk k}" :: acc), rs, none)
    | .ok o =>
      match o.status with
      | .complete => (joinAcc (s!"C,{o.consumed}" :: acc) ++ " | " ++ reqFields o.st, rs ++ o.reserves, some o.st)
      | .incomplete => runReq cfg ds o.st (buf.drop o.consumed) (s!"I,{o.consumed}" :: acc) (rs ++ o.reserves)

/-- as `runReq`, with the limits the caller has set before each call (public fields may be changed between calls) -/
def runReqV : List (ReqCfg × Bytes) → ReqState rhymuriImpl → Bytes → List String → List Reserve → String
  | [], s, _, acc, rs => joinAcc acc ++ " | " ++ reqFields s ++ " #r=" ++ showReserves rs
  | (cfg, d) :: ds, s, pending, acc, rs =>
    let buf := pending ++ d
    match Request.parse rhymuriImpl cfg s buf with
    | .err c => joinAcc (s!"E:{cat c}" :: acc)
    | .panic k => joinAcc (s!"P:{pk k}" :: acc)
    | .ok o =>
      match o.status with
      | .complete => joinAcc (s!"C,{o.consumed}" :: acc) ++ " | " ++ reqFields o.st ++ " #r=" ++ showReserves (rs ++ o.reserves)
      | .incomplete => runReqV ds o.st (buf.drop o.consumed) (s!"I,{o.consumed}" :: acc) (rs ++ o.reserves)

def failStr : Fail → String
  | .err c => s!"E:{cat c}" | .panic k => s!"P:{pk k}" | .oof => "OOF"

/-- the same protocol through the generic `Sys` instance (current tree) that the theorems are stated over -/
def runReqSys (cfg : ReqCfg) : List Bytes → ReqState rhymuriImpl → Bytes → List String →
    String × Option (ReqState rhymuriImpl)
  | [], s, _, acc => (joinAcc acc ++ " | " ++ reqFields s, none)
  | d :: ds, s, pending, acc =>
    let buf := pending ++ d
    match (requestSys rhymuriImpl cfg).parse s buf with
    | .fail f => (joinAcc (failStr f :: acc), none)
    | .ok .complete st n => (joinAcc (s!"C,{n}" :: acc) ++ " | " ++ reqFields st, some st)
    | .ok .incomplete st n => runReqSys cfg ds st (buf.drop n) (s!"I,{n}" :: acc)

def runResp (cfg : RespCfg) : List Bytes → RespState → Bytes → List String → List Reserve →
    String × List Reserve × Option RespState
  | [], s, _, acc, rs => (joinAcc acc ++ " | " ++ respFields s, rs, none)
  | d :: ds, s, pending, acc, rs =>
    let buf := pending ++ d
    match Response.parse cfg s buf with
    | .err c => (joinAcc (s!"E:{cat c}" :: acc), rs, none)
    | .panic k => (joinAcc (s!"P:{pk k}" :: acc), rs, none)
    | .ok o =>
      match o.status with
      | .complete => (joinAcc (s!"C,{o.consumed}" :: acc) ++ " | " ++ respFields o.st, rs ++ o.reserves, some o.st)
      | .incomplete => runResp cfg ds o.st (buf.drop o.consumed) (s!"I,{o.consumed}" :: acc) (rs ++ o.reserves)

/-- the response protocol through the normalised `respSys`; the real parser's habit of swallowing the
    rest of the completing delivery into `trailer` (declared-length framing only) is re-attached here -/
def runRespSys (hl : Option Nat) : List Bytes → RespState → Bytes → List String → String
  | [], s, _, acc => joinAcc acc ++ " | " ++ respFields s
  | d :: ds, s, pending, acc =>
    let buf := pending ++ d
    match (respSys hl).parse s buf with
    | .fail f => joinAcc (failStr f :: acc)
    | .ok .complete st n =>
      let fixed := match st.phase with | .fixedBody _ => true | _ => false
      let consumed := if fixed then buf.length else n
      let trailing := if fixed then buf.drop n else []
      joinAcc (s!"C,{consumed}" :: acc) ++ " | " ++ respFields st trailing
    | .ok .incomplete st n => runRespSys hl ds st (buf.drop n) (s!"I,{n}" :: acc)

def parseHeaders (s : String) : Option (List Header) :=
  if s = "." then some [] else
  (s.splitOn ",").mapM fun e =>
    match e.splitOn ":" with
    | [k, v] => do
      let k ← unhex (if k = "" then "." else k); let v ← unhex (if v = "" then "." else v)
      if validUtf8 k && validUtf8 v then pure ⟨k, v⟩ else none
    | _ => none

/-- request op on the current tree: the `Sys` instance decides, the instrumented model supplies the
    reservation log; both descriptions of the same code must agree -/
def reqOp (cfg : ReqCfg) (ds : List Bytes) : String × Option (ReqState rhymuriImpl) :=
  let (b, rs, st) := runReq cfg ds (Request.new rhymuriImpl) [] [] []
  if cfg.tree.repaired then
    let (a, _) := runReqSys cfg ds (Request.new rhymuriImpl) [] []
    if a = b then (b ++ " #r=" ++ showReserves rs, st) else ("MODEL-INCONSISTENT " ++ a ++ " <> " ++ b, none)
  else (b ++ " #r=" ++ showReserves rs, st)

def respOp (cfg : RespCfg) (ds : List Bytes) : String × Option RespState :=
  let (b, rs, st) := runResp cfg ds Response.new [] [] []
  if cfg.tree.repaired then
    let a := runRespSys cfg.hl ds Response.new [] []
    if a = b then (b ++ " #r=" ++ showReserves rs, st) else ("MODEL-INCONSISTENT " ++ a ++ " <> " ++ b, none)
  else (b ++ " #r=" ++ showReserves rs, st)

/-- the text after `generate`: the bytes, or the error of the dependency, or `FOLD` where the model does not answer
    (a line that is not valid UTF-8 — no Rust `String` is; a line limit below 2, where the dependency's `limit - 2` traps or wraps
    depending on the build profile: known finding KF1) -/
def genText (r : GenRes) : Except String Bytes :=
  match r with
  | .ok b => .ok b
  | .couldNotBeFolded => .error "E:Headers(HeaderLineCouldNotBeFolded)"
  | .panic => .error "FOLD"
  | .unmodelled => .error "FOLD"

/-- `Request::generate` / `Response::generate`: `Headers.generate` where every line fits (what the theorems speak about),
    the folding model of `Hm/Fold` otherwise -/
def reqGen (cfg : ReqCfg) (st : ReqState rhymuriImpl) : Except String Bytes :=
  match Request.generate rhymuriImpl cfg st with
  | some g => .ok g
  | none => genText (Request.generateFold rhymuriImpl cfg st)

def respGen (cfg : RespCfg) (st : RespState) : Except String Bytes :=
  match Response.generate cfg st with
  | some g => .ok g
  | none => genText (Response.generateFold cfg st)

def deflateOf (tree : Bool) : Bytes → Option Bytes := if tree then deflateSniff else inflateRaw

/-! block descriptions for the `BLOCKS` op: blocks separated by `/`;
    `S:<hex>` | `F:<toks>` | `D:<hlit>,<hdist>,<hclen>:<clv>:<cls>:<lens>:<toks>`; lists separated by `;` (`.` = empty);
    tok = `l<byte>` | `m<ls>.<eb>.<ds>.<db>`; cl symbol = `n<v>` | `r<r>` | `z<r>` | `Z<r>` -/
def natList (s : String) : Option (List Nat) :=
  if s = "." then some [] else (s.splitOn ";").mapM (·.toNat?)

def parseTok (s : String) : Option Tok :=
  match s.toList with
  | 'l' :: rest => (String.ofList rest).toNat?.bind fun n => if n < 256 then some (Tok.lit n.toUInt8) else none
  | 'm' :: rest =>
    match ((String.ofList rest).splitOn ".").mapM (·.toNat?) with
    | some [a, b, c, d] => some (Tok.mat a b c d)
    | _ => none
  | _ => none

def parseToks (s : String) : Option (List Tok) := if s = "." then some [] else (s.splitOn ";").mapM parseTok

def parseCl (s : String) : Option ClSym :=
  match s.toList with
  | 'n' :: rest => (String.ofList rest).toNat?.map ClSym.len
  | 'r' :: rest => (String.ofList rest).toNat?.map ClSym.rep
  | 'z' :: rest => (String.ofList rest).toNat?.map ClSym.z3
  | 'Z' :: rest => (String.ofList rest).toNat?.map ClSym.z11
  | _ => none

def parseBlock (s : String) : Option Block :=
  match s.splitOn ":" with
  | ["S", d] => (unhex d).map Block.stored
  | ["F", t] => (parseToks t).map Block.fixed
  | ["D", hdr, clv, cls, lens, t] =>
    match (hdr.splitOn ",").mapM (·.toNat?), natList clv, (if cls = "." then some [] else (cls.splitOn ";").mapM parseCl), natList lens, parseToks t with
    | some [a, b, c], some clv, some cls, some lens, some toks => some (Block.dyn ⟨a, b, c, clv, cls⟩ lens toks)
    | _, _, _, _, _ => none
  | _ => none

def okOrErr (r : Option Bytes) : String := match r with | some o => "OK " ++ hex o | none => "ERR"

def step (toks : List String) : String :=
  match toks with
  | ["REQ", tree, ov, rl, hl, mx, ds] =>
    match optLim (defaultCfg true ⟨true⟩).rl rl, optLim (defaultCfg true ⟨true⟩).hl hl, optLim (defaultCfg true ⟨true⟩).max mx, (ds.splitOn "|").mapM unhex with
    | some rl, some hl, some mx, some ds =>
      (reqOp { rl := rl, hl := hl, max := mx, ov := ov = "1", tree := ⟨tree = "1"⟩ } ds).1
    | _, _, _, _ => "bad-op"
  | ["REQV", tree, ov, cfgs, ds] =>
    let parseCfg (c : String) : Option ReqCfg :=
      match c.splitOn "," with
      | [rl, hl, mx] =>
        match optNat rl, optNat hl, optNat mx with
        | some rl, some hl, some mx => some { rl := rl, hl := hl, max := mx, ov := ov = "1", tree := ⟨tree = "1"⟩ }
        | _, _, _ => none
      | _ => none
    match (cfgs.splitOn ";").mapM parseCfg, (ds.splitOn "|").mapM unhex with
    | some cs, some ds => if cs.length = ds.length then runReqV (cs.zip ds) (Request.new rhymuriImpl) [] [] [] else "bad-op"
    | _, _ => "bad-op"
  | ["RESPPRE", tree, ov, hl, pre, ds] =>
    -- a Response whose public `body` field the caller has filled before the first `parse`
    match optLim none hl, unhex pre, (ds.splitOn "|").mapM unhex with
    | some hl, some pre, some ds =>
      let cfg : RespCfg := { hl := hl, ov := ov = "1", tree := ⟨tree = "1"⟩ }
      let (b, rs, _) := runResp cfg ds { Response.new with body := pre } [] [] []
      b ++ " #r=" ++ showReserves rs
    | _, _, _ => "bad-op"
  | ["RESP", tree, ov, hl, ds] =>
    match optLim none hl, (ds.splitOn "|").mapM unhex with
    | some hl, some ds => (respOp { hl := hl, ov := ov = "1", tree := ⟨tree = "1"⟩ } ds).1
    | _, _ => "bad-op"
  | ["RTREQ", tree, ov, rl, hl, mx, ds] =>
    match optLim (defaultCfg true ⟨true⟩).rl rl, optLim (defaultCfg true ⟨true⟩).hl hl, optLim (defaultCfg true ⟨true⟩).max mx, (ds.splitOn "|").mapM unhex with
    | some rl, some hl, some mx, some ds =>
      let cfg : ReqCfg := { rl := rl, hl := hl, max := mx, ov := ov = "1", tree := ⟨tree = "1"⟩ }
      match reqOp cfg ds with
      | (first, none) => first
      | (first, some st) =>
        match reqGen cfg st with
        | .error e => first ++ " || " ++ e
        | .ok g => first ++ " || OK " ++ hex g ++ " || " ++ (reqOp cfg [g]).1
    | _, _, _, _ => "bad-op"
  | ["RTRESP", tree, ov, hl, ds] =>
    match optLim none hl, (ds.splitOn "|").mapM unhex with
    | some hl, some ds =>
      let cfg : RespCfg := { hl := hl, ov := ov = "1", tree := ⟨tree = "1"⟩ }
      match respOp cfg ds with
      | (first, none) => first
      | (first, some st) =>
        match respGen cfg st with
        | .error e => first ++ " || " ++ e
        | .ok g => first ++ " || OK " ++ hex g ++ " || " ++ (respOp cfg [g]).1
    | _, _ => "bad-op"
  | ["RESPDEC", tree, ov, hl, ds] =>
    -- a response parsed under the calling protocol, then `decode_body_as_text` and `decode_body` on what was parsed
    match optLim none hl, (ds.splitOn "|").mapM unhex with
    | some hl, some ds =>
      let cfg : RespCfg := { hl := hl, ov := ov = "1", tree := ⟨tree = "1"⟩ }
      match respOp cfg ds with
      | (first, none) => first
      | (first, some st) =>
        let txt := match decodeBodyAsText st.headers st.body with
          | .none => "NONE" | .some t => "SOME " ++ hex t | .unmodelled e => "UNMODELLED " ++ e
        let r := decodeBody gunzip (deflateOf (tree = "1")) st.headers st.body
        let dec := match r.2 with
          | some out => s!"OK {hex out} | h={showHeaders r.1}"
          | none => s!"ERR | h={showHeaders r.1}"
        first ++ " || TXT " ++ txt ++ " || DEC " ++ dec
    | _, _ => "bad-op"
  | ["REQGEN", hl, method, target, hs, body] =>
    match optNat hl, unhex method, unhex target, parseHeaders hs, unhex body with
    | some hl, some m, some t, some hs, some body =>
      if !validUtf8 m || !validUtf8 t then "bad-op" else
      match Rhymuri.parse t with
      | none => "BADURI"
      | some uri =>
        let st : ReqState rhymuriImpl := { phase := .requestLine, totalBytes := 0, method := m, target := uri, headers := hs, body := body }
        match reqGen { rl := none, hl := hl, max := none, ov := true, tree := ⟨true⟩ } st with
        | .error e => e
        | .ok g => "OK " ++ hex g
    | _, _, _, _, _ => "bad-op"
  | ["RESPGEN", hl, code, reason, hs, body] =>
    match optNat hl, code.toNat?, unhex reason, parseHeaders hs, unhex body with
    | some hl, some code, some reason, some hs, some body =>
      if !validUtf8 reason then "bad-op" else
      let st : RespState := { Response.new with statusCode := code, reasonPhrase := reason, headers := hs, body := body }
      match respGen { hl := hl, ov := true, tree := ⟨true⟩ } st with
      | .error e => e
      | .ok g => "OK " ++ hex g
    | _, _, _, _, _ => "bad-op"
  | ["REQGRT", hl, method, target, hs, body] =>
    -- `hl` alone: header line limit, no other limit; `rl,hl,mx`: the three limits of the parsing Request (spelled as in REQ)
    let dc := defaultCfg true ⟨true⟩
    let cfg? : Option ReqCfg := match hl.splitOn "," with
      | [h] => (optNat h).map fun h => { rl := none, hl := h, max := none, ov := true, tree := ⟨true⟩ }
      | [a, b, c] => match optLim dc.rl a, optLim dc.hl b, optLim dc.max c with
        | some a, some b, some c => some { rl := a, hl := b, max := c, ov := true, tree := ⟨true⟩ }
        | _, _, _ => none
      | _ => none
    match cfg?, unhex method, unhex target, parseHeaders hs, unhex body with
    | some cfg, some m, some t, some hs, some body =>
      if !validUtf8 m || !validUtf8 t then "bad-op" else
      match Rhymuri.parse t with
      | none => "BADURI"
      | some uri =>
        let st : ReqState rhymuriImpl := { phase := .requestLine, totalBytes := 0, method := m, target := uri, headers := hs, body := body }
        let shown := "V t=" ++ hex (Rhymuri.display uri) ++ " u=" ++ uriStruct uri
        match reqGen cfg st with
        | .error e => shown ++ " || " ++ e
        | .ok g =>
          match reqOp cfg [g] with
          | (p, none) => shown ++ " || OK " ++ hex g ++ " || " ++ p
          | (p, some st2) =>
            match reqGen cfg st2 with
            | .error e => shown ++ " || OK " ++ hex g ++ " || " ++ p ++ " || " ++ e
            | .ok g2 => shown ++ " || OK " ++ hex g ++ " || " ++ p ++ " || OK " ++ hex g2
    | _, _, _, _, _ => "bad-op"
  | ["RESPGRT", hl, code, reason, hs, body] =>
    match optNat hl, code.toNat?, unhex reason, parseHeaders hs, unhex body with
    | some hl, some code, some reason, some hs, some body =>
      if !validUtf8 reason then "bad-op" else
      let cfg : RespCfg := { hl := hl, ov := true, tree := ⟨true⟩ }
      let st : RespState := { Response.new with statusCode := code, reasonPhrase := reason, headers := hs, body := body }
      match respGen cfg st with
      | .error e => "V || " ++ e
      | .ok g =>
        match respOp cfg [g] with
        | (p, none) => "V || OK " ++ hex g ++ " || " ++ p
        | (p, some st2) =>
          match respGen cfg { st2 with trailer := [] } with
          | .error e => "V || OK " ++ hex g ++ " || " ++ p ++ " || " ++ e
          | .ok g2 => "V || OK " ++ hex g ++ " || " ++ p ++ " || OK " ++ hex g2
    | _, _, _, _, _ => "bad-op"
  | ["DECODE", tree, hs, body] =>
    match parseHeaders hs, unhex body with
    | some hs, some body =>
      let r := decodeBody gunzip (deflateOf (tree = "1")) hs body
      match r.2 with
      | some out => s!"OK {hex out} | h={showHeaders r.1}"
      | none => s!"ERR | h={showHeaders r.1}"
    | _, _ => "bad-op"
  | ["TEXT", hs, body] =>
    match parseHeaders hs, unhex body with
    | some hs, some body =>
      match decodeBodyAsText hs body with
      | .none => "NONE"
      | .some t => "SOME " ++ hex t
      | .unmodelled e => "UNMODELLED " ++ e
    | _, _ => "bad-op"
  | ["URI", b] =>
    match unhex b with
    | none => "bad-op"
    | some bs =>
      if !validUtf8 bs then "bad-op" else
      match Rhymuri.parse bs with
      | none => "ERR"
      | some u =>
        let o (x : Option Bytes) : String := match x with | some v => hex v | none => "-"
        let a : String := match u.authority with
          | some a => s!"{o a.userinfo},{hex a.host},{match a.port with | some p => toString p | none => "-"}"
          | none => "-"
        s!"OK s={o u.scheme} a={a} p={"/".intercalate (u.path.map hex)}|{u.path.length} q={o u.query} f={o u.fragment} d={hex (Rhymuri.display u)}"
  | ["GZ", b] => match unhex b with | some bs => okOrErr (gunzip bs) | none => "bad-op"
  | ["FL", b] => match unhex b with | some bs => okOrErr (inflateRaw bs) | none => "bad-op"
  | ["ZL", b] => match unhex b with | some bs => okOrErr (zlibDecode bs) | none => "bad-op"
  | ["DF", tree, b] => match unhex b with | some bs => okOrErr (deflateOf (tree = "1") bs) | none => "bad-op"
  | ["BLOCKS", d] =>
    match (d.splitOn "/").mapM parseBlock with
    | none => "bad-op"
    | some blocks =>
      s!"ok={if blocks.all blockOkB then 1 else 0} bits={hex (packBits (blocksBits 0 blocks))} out={hex (expandBlocks #[] blocks).toList}"
  | _ => "bad-op"

partial def loop (h : IO.FS.Stream) (out : IO.FS.Stream) : IO Unit := do
  let line ← h.getLine
  if line.isEmpty then return ()
  match (line.trimAscii.toString.splitOn " ").filter (· ≠ "") with
  | [] => pure ()
  | tag :: toks => out.putStrLn (tag ++ " " ++ step toks)
  loop h out

def main : IO Unit := do loop (← IO.getStdin) (← IO.getStdout)
