import Hm.C15Stored
import Hm.C18Label
import Hm.C16Select
import Hm.C04Category
import Hm.C18Req
import Hm.C11Req
import Hm.FuelMono
import Hm.C15Fields
import Hm.C04Whole
import Hm.C13EndToEnd
import Hm.C15Gzip
import Hm.C05Conv
import Hm.C07Resp
import Hm.C10Req
import Hm.C02
import Hm.C07
import Hm.C08
import Hm.C09
import Hm.C12
import Hm.C13
import Hm.C15
import Hm.C16
import Hm.C17
import Hm.RespProps
import Hm.C03C04
import Hm.C08b
import Hm.C10
import Hm.C05
import Hm.C08c
import Hm.StoredBlock
import Hm.C18
import Hm.C03Grammar
import Hm.C04Grammar
import Hm.C03Whole
import Hm.HeaderWf
import Hm.PinnedWitnesses
import Hm.Statements
#print axioms C01_request_delivery_independent
#print axioms C02_response_delivery_independent
#print axioms C03_accept_sound
#print axioms C03_accepted_prefix_not_rejected
#print axioms C03_prefix_never_rejected
#print axioms C03_request_line_complete
#print axioms C03_request_line_sound
#print axioms C04_framing_bad_content_length
#print axioms C04_framing_chunked
#print axioms C04_framing_content_length
#print axioms C04_framing_none
#print axioms C04_prefix_never_rejected
#print axioms C04_status_line_sound
#print axioms C05_chunk_delivery_independent
#print axioms C05_pinned_bare_cr
#print axioms C05_roundtrip
#print axioms C05_roundtrip_parse
#print axioms C06_pinned_request_traps_checked
#print axioms C06_pinned_request_traps_unchecked
#print axioms C06_pinned_response_traps
#print axioms C06_request_no_crash
#print axioms C06_response_no_crash
#print axioms C07_request_reserve_bounded
#print axioms C08_accept_within_max
#print axioms C08_header_line_exact
#print axioms C08_header_line_none
#print axioms C08_more_implies_within_max
#print axioms C08_request_line_exact
#print axioms C08_request_line_exact_unterminated
#print axioms C08_request_line_none
#print axioms C09_request_pipeline
#print axioms C09_response_pipeline
#print axioms C09_response_suffix_irrelevant
#print axioms C10_response_roundtrip
#print axioms C11_headers_reparse
#print axioms C12_content_length
#print axioms C12_no_trailer
#print axioms C12_others
#print axioms C12_pinned_join_blank
#print axioms C12_pinned_trailer_content_length
#print axioms C12_transfer_encoding
#print axioms C13_inflate_stored
#print axioms C13_pinned_zlib_header_rejected
#print axioms C13_stack
#print axioms C14_content_encoding
#print axioms C14_content_length
#print axioms C14_failure_atomic
#print axioms C14_others_unchanged
#print axioms C15_deflate_truncation
#print axioms C15_gzip_truncation
#print axioms C15_zlib_check
#print axioms C15_zlib_truncation
#print axioms C16_latin1_ascii
#print axioms C16_latin1_no_replacement
#print axioms C16_latin1_total
#print axioms C16_some_only_if_text
#print axioms C16_utf8_exact
#print axioms C17_chunk_size
#print axioms C17_pinned_chunk_plus
#print axioms C17_pinned_plus_accepted
#print axioms C17_request_content_length
#print axioms C17_status_code
#print axioms C18_decode_case
#print axioms C18_has_chunked_case
#print axioms C18_header_tokens_case
#print axioms C18_response_framing_case
#print axioms C01_pinned_false
#print axioms C01_pinned_witness
#print axioms C10_request_roundtrip
#print axioms C10_request_roundtrip_rhymuri
#print axioms Rhymuri.parse_display_path
#print axioms Rhymuri.decode_encode
#print axioms Rhymuri.splitSlash_join
#print axioms C07_chunk_reserve_bounded
#print axioms C07_response_reserve_bounded
#print axioms C05_complete_only_if_wellformed
#print axioms Headers.parse_cut
#print axioms chunkLoop_sound
#print axioms C15_gzip_check
#print axioms C13_inflate_stored_blocks
#print axioms C13_inflateRaw_stored_blocks
#print axioms C13_zlib_stored_blocks
#print axioms C13_gzip_stored_blocks
#print axioms C13_level0_stacks
#print axioms C04_accept_sound
#print axioms C15_zlib_field_altered
#print axioms C15_gzip_field_altered
#print axioms C15_gunzip_truncated
#print axioms C15_zlibDecode_truncated
#print axioms C15_inflateRaw_truncated
#print axioms C15_gzip_signature
#print axioms C15_zlib_header
#print axioms C11_request_reparse_partial
#print axioms C11_request_reparse_rhymuri
#print axioms C18_request_framing_case
#print axioms C18_text_name_case
#print axioms C03_request_line_category
#print axioms C04_status_line_category
#print axioms C16_default_charset
#print axioms C16_charset_decides
#print axioms forLabel_latin1
#print axioms forLabel_utf8
#print axioms forLabel_unknown
#print axioms C18_charset_label_case
#print axioms C18_charset_label_case'
#print axioms C15_gzipStored_every_prefix_rejected
#print axioms gunzipR_gzipStored
#print axioms C15_zlibStored_every_prefix_rejected
#print axioms C15_rawStored_every_prefix_rejected
#print axioms C15_decodeBody_truncated_gzip
#print axioms C13_decodeBody_gzip
#print axioms C13_decodeBody_level0_stacks
