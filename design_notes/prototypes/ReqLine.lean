import Lt.Basic

/-- outcome of the request-line phase, abstracting what follows the line -/
inductive RL where
  | tooLong
  | incomplete
  | line (l : Bytes) (consumed : Nat)
deriving DecidableEq, Repr

/-- src/request.rs:423-455 as it is today (limit check on unterminated input counts a trailing CR) -/
def rlPhase (limit : Option Nat) (raw : Bytes) : RL :=
  match findCrlf raw, limit with
  | some e, some lim => if e > lim then .tooLong else .line (raw.take e) (e + 2)
  | some e, none => .line (raw.take e) (e + 2)
  | none, some lim => if raw.length > lim then .tooLong else .incomplete
  | none, none => .incomplete

/-- candidate repair: a dangling CR is not yet part of the line -/
def pendingLen (raw : Bytes) : Nat :=
  if raw.getLast? = some CR then raw.length - 1 else raw.length

def rlPhaseFixed (limit : Option Nat) (raw : Bytes) : RL :=
  match findCrlf raw, limit with
  | some e, some lim => if e > lim then .tooLong else .line (raw.take e) (e + 2)
  | some e, none => .line (raw.take e) (e + 2)
  | none, some lim => if pendingLen raw > lim then .tooLong else .incomplete
  | none, none => .incomplete

/-- the defect, as a kernel-checked witness: a rejected prefix of an accepted stream -/
theorem rlPhase_not_monotone :
    ∃ lim raw d, rlPhase (some lim) raw = .tooLong ∧ rlPhase (some lim) (raw ++ d) ≠ .tooLong :=
  ⟨1, [65, 13], [10], by decide⟩

/-- if no CRLF in `b` but one appears in `b ++ d`, it starts at or after the last byte of `b`,
    and if it starts at the last byte then that byte is CR -/
theorem findCrlf_append_of_none {b d : Bytes} {i : Nat}
    (hb : findCrlf b = none) (h : findCrlf (b ++ d) = some i) :
    b.length ≤ i ∨ (i + 1 = b.length ∧ b.getLast? = some CR) := by
  fun_induction findCrlf b generalizing i with
  | case1 => simp
  | case2 a =>
    cases d with
    | nil => simp [findCrlf] at h
    | cons x d =>
      simp only [List.cons_append, List.nil_append, findCrlf] at h
      split at h
      · rename_i hc; simp at h; subst h; right; simp [hc.1]
      · simp only [Option.map_eq_some_iff] at h
        obtain ⟨j, _, rfl⟩ := h; left; simp
  | case3 a b rest hc => simp [findCrlf, hc] at hb
  | case4 a b rest hc ih =>
    simp only [findCrlf, hc, if_false, Option.map_eq_none_iff] at hb
    simp only [List.cons_append, findCrlf, hc, if_false, Option.map_eq_some_iff] at h
    obtain ⟨j, hj, rfl⟩ := h
    have := ih hb (i := j) (by simpa using hj)
    rcases this with h1 | ⟨h1, h2⟩
    · left; simp at *; omega
    · right; constructor
      · simp at *; omega
      · simpa [List.getLast?_cons_cons] using h2

theorem rlPhaseFixed_monotone (limit : Option Nat) (raw d : Bytes)
    (h : rlPhaseFixed limit raw = .tooLong) : rlPhaseFixed limit (raw ++ d) = .tooLong := by
  unfold rlPhaseFixed at h ⊢
  cases hf : findCrlf raw with
  | some e =>
    rw [findCrlf_append_of_some hf]
    cases limit <;> simp_all
  | none =>
    cases limit with
    | none => simp [hf] at h
    | some lim =>
      simp only [hf] at h
      have hlen : pendingLen raw > lim := by
        apply Decidable.byContradiction; intro hc; simp [hc] at h
      cases hf2 : findCrlf (raw ++ d) with
      | some i =>
        have := findCrlf_append_of_none hf hf2
        have hi : i > lim := by
          unfold pendingLen at hlen
          rcases this with h1 | ⟨h1, h2⟩
          · split at hlen <;> omega
          · simp [h2] at hlen; omega
        simp [hi]
      | none =>
        have : pendingLen (raw ++ d) > lim := by
          cases d with
          | nil => simpa using hlen
          | cons x d =>
            have h1 : pendingLen raw ≤ raw.length := by unfold pendingLen; split <;> omega
            have h2 : pendingLen (raw ++ x :: d) ≥ raw.length := by
              unfold pendingLen; split <;> simp <;> omega
            omega
        simp [this]
