use std::io::Write;
struct Rng(u64);
impl Rng { fn next(&mut self) -> u64 { self.0 ^= self.0 << 13; self.0 ^= self.0 >> 7; self.0 ^= self.0 << 17; self.0 }
  fn below(&mut self, n: usize) -> usize { (self.next() % (n as u64)) as usize }
  fn pick<'a, T>(&mut self, v: &'a [T]) -> &'a T { &v[self.below(v.len())] } }
fn hex(b: &[u8]) -> String { b.iter().map(|x| format!("{:02x}", x)).collect() }
fn o(x: Option<&[u8]>) -> String { match x { Some(v) => hex(v), None => "-".into() } }
fn main() {
    let args: Vec<String> = std::env::args().collect(); let seed: u64 = args[1].parse().unwrap(); let n: usize = args[2].parse().unwrap();
    let mut rng = Rng(seed | 1);
    let mut ops = std::io::BufWriter::new(std::fs::File::create("ops.txt").unwrap());
    let mut imp = std::io::BufWriter::new(std::fs::File::create("impl.txt").unwrap());
    for _ in 0..n {
        let mut s = String::new();
        s += *rng.pick(&["", "", "", "http:", "HTTP:", "a+b-c.d:", "1x:", ":", "x y:", "urn:", "h\u{e9}:"]);
        if rng.below(2) == 0 {
            s += "//";
            s += *rng.pick(&["", "", "", "user@", "u:p@", "u%40x@", "%zz@", "a@b@"]);
            s += *rng.pick(&["example.com", "EXAMPLE.com", "", "1.2.3.4", "999.1.1.1", "[::1]", "[::FFFF:1.2.3.4]", "[1:2:3:4:5:6:7:8]", "[1:2:3:4:5:6:7]", "[::1", "[v1.a]", "[vA.B:c]", "[v.x]", "[v1]", "h%41st", "h%3A%3A1", "%3A%3A1", "a_b~c!$&'()*+,;=", "h{st", "[::12345]", "[1::2::3]", "[::1.2.3]", "[::1.2.3.4.5]", "[:1]", "[1:]", "[fe80::1%25eth0]", "h\u{e9}"]);
            s += *rng.pick(&["", "", "", ":", ":80", ":+80", ":080", ":65535", ":65536", ":8a", ":-1", "]x", "x"]);
        }
        for _ in 0..rng.below(4) { s += *rng.pick(&["/", "/a", "/b%20c", "a", "/.", "/..", "/%2F", "/%", "/%4", "/%4g", "/a:b", "a%3Ab", "/*", "/;p=1", "/@", "/ ", "/\u{e9}", "/%E2%82%AC", "//"]); }
        s += *rng.pick(&["", "", "", "?", "?q", "?a=1+2&b=%2B", "?a/b?c", "?%zz", "?\u{e9}", "?a#"]);
        s += *rng.pick(&["", "", "", "#", "#f", "#a/b?c#d", "#%41", "#%4"]);
        if rng.below(6) == 0 && !s.is_empty() { // mutate one char
            let mut cs: Vec<char> = s.chars().collect(); let i = rng.below(cs.len());
            match rng.below(3) { 0 => { cs[i] = *rng.pick(&['%', ':', '/', '@', '[', ']', '?', '#', ' ', 'A', '0', '+']); } 1 => { cs.remove(i); } _ => { cs.insert(i, *rng.pick(&['%', ':', '/', '@', '[', ']', '.', 'v'])); } }
            s = cs.into_iter().collect();
        }
        if s.is_empty() { writeln!(ops, "URI .").unwrap(); } else { writeln!(ops, "URI {}", hex(s.as_bytes())).unwrap(); }
        match rhymuri::Uri::parse(&s) {
            Err(_) => writeln!(imp, "ERR").unwrap(),
            Ok(u) => {
                let a = match u.authority() { Some(a) => format!("{},{},{}", o(a.userinfo()), hex(a.host()), a.port().map(|p| p.to_string()).unwrap_or("-".into())), None => "-".into() };
                writeln!(imp, "OK s={} a={} p={}|{} q={} f={} d={}", o(u.scheme().map(|x| x.as_bytes())), a, u.path().iter().map(|p| hex(p)).collect::<Vec<_>>().join("/"), u.path().len(), o(u.query()), o(u.fragment()), hex(u.to_string().as_bytes())).unwrap();
            }
        }
    }
}
