use std::io::{Read, Write};
struct Rng(u64);
impl Rng { fn next(&mut self) -> u64 { self.0 ^= self.0 << 13; self.0 ^= self.0 >> 7; self.0 ^= self.0 << 17; self.0 }
  fn below(&mut self, n: usize) -> usize { (self.next() % (n as u64)) as usize }
  fn pick<'a, T>(&mut self, v: &'a [T]) -> &'a T { &v[self.below(v.len())] } }
fn hex(b: &[u8]) -> String { if b.is_empty() { ".".into() } else { b.iter().map(|x| format!("{:02x}", x)).collect() } }
fn dec(kind: &str, s: &[u8]) -> Option<Vec<u8>> { let mut o = Vec::new();
    let r = match kind { "GZ" => flate2::bufread::GzDecoder::new(s).read_to_end(&mut o), "ZL" => flate2::bufread::ZlibDecoder::new(s).read_to_end(&mut o), _ => flate2::bufread::DeflateDecoder::new(s).read_to_end(&mut o) };
    r.ok().map(|_| o) }
fn main() {
    let args: Vec<String> = std::env::args().collect(); let seed: u64 = args[1].parse().unwrap(); let n: usize = args[2].parse().unwrap(); let maxlen: usize = args[3].parse().unwrap();
    let mut rng = Rng(seed | 1);
    let mut ops = std::io::BufWriter::new(std::fs::File::create("ops.txt").unwrap());
    let mut imp = std::io::BufWriter::new(std::fs::File::create("impl.txt").unwrap());
    let mut emit = |kind: &str, s: &[u8]| { writeln!(ops, "{} {}", kind, hex(s)).unwrap(); match dec(kind, s) { Some(o) => writeln!(imp, "OK {}", if o.is_empty() { String::new() } else { hex(&o) }).unwrap(), None => writeln!(imp, "ERR").unwrap() } };
    for it in 0..n {
        let len = match rng.below(5) { 0 => 0, 1 => rng.below(8), 2 => rng.below(200), _ => rng.below(maxlen) };
        let data: Vec<u8> = match rng.below(4) { 0 => (0..len).map(|_| (rng.next() & 0xff) as u8).collect(), 1 => (0..len).map(|_| *rng.pick(b"ab")).collect(), 2 => (0..len).map(|i| (i % 7) as u8 + b'a').collect(), _ => (0..len).map(|_| *rng.pick(b"the quick brown fox \n")).collect() };
        let lvl = flate2::Compression::new((it % 10) as u32);
        let kind = *rng.pick(&["GZ", "FL", "ZL"]);
        let s: Vec<u8> = match kind {
            "GZ" => { let mut b = flate2::GzBuilder::new(); if rng.below(3)==0 { b = b.filename("name.txt"); } if rng.below(3)==0 { b = b.comment("a comment"); } if rng.below(3)==0 { b = b.extra(vec![1,2,3,4]); } if rng.below(3)==0 { b = b.mtime(123456); }
                      let mut e = b.write(Vec::new(), lvl); e.write_all(&data).unwrap(); e.finish().unwrap() }
            "ZL" => { let mut e = flate2::write::ZlibEncoder::new(Vec::new(), lvl); e.write_all(&data).unwrap(); e.finish().unwrap() }
            _ => { let mut e = flate2::write::DeflateEncoder::new(Vec::new(), lvl); e.write_all(&data).unwrap(); e.finish().unwrap() } };
        emit(kind, &s);
        // truncations (a few), container-field edits, cross-format
        for _ in 0..3 { if !s.is_empty() { let k = rng.below(s.len()); emit(kind, &s[..k]); } }
        if kind != "FL" && s.len() >= 8 { for _ in 0..2 { let mut t = s.clone(); let k = t.len() - 1 - rng.below(if kind == "GZ" { 8 } else { 4 }); t[k] ^= 1 << rng.below(8); emit(kind, &t); } }
        if kind == "GZ" { let mut t = s.clone(); let k = rng.below(4); t[k] ^= 1 << rng.below(8); emit(kind, &t); }
        if rng.below(4) == 0 { let other = *rng.pick(&["GZ", "FL", "ZL"]); emit(other, &s); }
    }
}
