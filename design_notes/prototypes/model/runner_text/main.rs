use rhymessage::{MessageHeaders, Header};
use std::io::Write;
struct Rng(u64);
impl Rng { fn next(&mut self) -> u64 { self.0 ^= self.0 << 13; self.0 ^= self.0 >> 7; self.0 ^= self.0 << 17; self.0 }
  fn below(&mut self, n: usize) -> usize { (self.next() % (n as u64)) as usize }
  fn pick<'a, T>(&mut self, v: &'a [T]) -> &'a T { &v[self.below(v.len())] } }
fn hex(b: &[u8]) -> String { b.iter().map(|x| format!("{:02x}", x)).collect() }
fn hexd(b: &[u8]) -> String { if b.is_empty() { ".".into() } else { hex(b) } }
fn randcase(rng: &mut Rng, s: &str) -> String { s.chars().map(|c| if rng.below(2)==0 { c.to_ascii_uppercase() } else { c.to_ascii_lowercase() }).collect() }
fn main() {
    let args: Vec<String> = std::env::args().collect(); let seed: u64 = args[1].parse().unwrap(); let n: usize = args[2].parse().unwrap();
    let mut rng = Rng(seed | 1);
    let mut ops = std::io::BufWriter::new(std::fs::File::create("ops.txt").unwrap());
    let mut imp = std::io::BufWriter::new(std::fs::File::create("impl.txt").unwrap());
    let labels = ["utf-8", "utf8", "unicode-1-1-utf-8", "iso-8859-1", "latin1", "l1", "ascii", "us-ascii", "windows-1252", "cp1252", "x-cp1252", "bogus", "", "\"utf-8\"", "utf-16le", "shift_jis", "iso-8859-2", "replacement", "hz-gb-2312", "iso-2022-kr", "utf-8x", "cseucpkdfmtjapanese", "cseucpkdfmtjapanesex", "u t f", "utf_8"];
    for _ in 0..n {
        let ty = *rng.pick(&["text", "TEXT", "Text", "texts", "application", "", " text", "text ", "te\u{e9}t", "\u{a0}text"]);
        let sub = *rng.pick(&["/plain", "/html", "", "/", "/plain ", "/p/q"]);
        let cs = { let l = *rng.pick(&labels); let l = if rng.below(2)==0 { randcase(&mut rng, l) } else { l.to_string() }; format!("{}{}{}", rng.pick(&[""," ","\t","\n","\x0c\r","\u{a0}"]), l, rng.pick(&[""," ","\t \n","\u{2003}", " x"])) };
        let cname = if rng.below(3)==0 { randcase(&mut rng, "charset") } else { "charset".to_string() };
        let params = match rng.below(8) { 0 => String::new(), 1 => format!(";{}={}", cname, cs), 2 => format!("; {}={}", cname, cs), 3 => format!(";a=b;{}={};charset=bogus", cname, cs), 4 => format!(" ; {} = {}", cname, cs), 5 => format!(";x;=;{}={}", cname, cs), 6 => format!(";\u{a0}{}={}\u{2003};", cname, cs), _ => format!(";{}={};", cname, cs) };
        let ct = format!("{}{}{}", ty, sub, params);
        let body: Vec<u8> = (0..rng.below(12)).map(|_| *rng.pick(b"aZ\x00\x7f\x80\x81\x8d\x9f\xa0\xc3\xa9\xe2\x82\xac\xed\xa0\x80\xf4\x90\xff\xc0\xaf\xef\xbb\xbf")).collect();
        let mut h = MessageHeaders::new();
        if rng.below(8)==0 { h.add_header(Header{ name: "X".into(), value: "y".into() }); }
        let present = rng.below(12) > 0;
        if present { h.add_header(Header{ name: randcase(&mut rng, "content-type").as_str().into(), value: ct.clone() }); if rng.below(10)==0 { h.add_header(Header{ name: "Content-Type".into(), value: "text/html".into() }); } }
        let hs = if h.headers().is_empty() { ".".to_string() } else { h.headers().iter().map(|h| format!("{}:{}", hex(h.name.as_ref().as_bytes()), hex(h.value.as_bytes()))).collect::<Vec<_>>().join(",") };
        writeln!(ops, "TEXT {} {}", hs, hexd(&body)).unwrap();
        match rhymuweb::coding::decode_body_as_text(&h, &body) { None => writeln!(imp, "NONE").unwrap(), Some(t) => writeln!(imp, "SOME {}", hex(t.as_bytes())).unwrap() }
    }
}
