import Hm.Response
import Hm.ReqSys
import Hm.C02
import Hm.Coding
import Hm.Inflate
import Hm.Rhymuri
import Hm.Text

def hexDigit (n : Nat) : Char := if n < 10 then Char.ofNat (48 + n) else Char.ofNat (87 + n)
def hex (bs : Bytes) : String := String.ofList (bs.flatMap fun b => [hexDigit (b.toNat / 16), hexDigit (b.toNat % 16)])
def hexVal (c : Char) : Option Nat :=
  if '0' ≤ c ∧ c ≤ '9' then some (c.toNat - 48) else if 'a' ≤ c ∧ c ≤ 'f' then some (c.toNat - 87) else none
def unhexL : List Char → Option Bytes
  | [] => some []
  | a :: b :: rest => do
    let x ← hexVal a; let y ← hexVal b; let r ← unhexL rest
    pure ((x * 16 + y).toUInt8 :: r)
  | _ => none
def unhex (s : String) : Option Bytes := if s = "." then some [] else unhexL s.toList

def optNat (s : String) : Option (Option Nat) := if s = "-" then some none else s.toNat?.map some

def herr : HErr → String
  | .HeaderLineTooLong => "HeaderLineTooLong" | .HeaderLineInvalidText => "HeaderLineInvalidText"
  | .HeaderLineMissingColon => "HeaderLineMissingColon"
  | .HeaderNameContainsIllegalCharacter => "HeaderNameContainsIllegalCharacter"
  | .HeaderValueContainsIllegalCharacter => "HeaderValueContainsIllegalCharacter"
  | .HeaderLineCouldNotBeFolded => "HeaderLineCouldNotBeFolded"

def cat : Cat → String
  | .ChunkSizeLineNotValidText => "ChunkSizeLineNotValidText" | .Headers e => s!"Headers({herr e})"
  | .InvalidChunkSize => "InvalidChunkSize" | .InvalidChunkTerminator => "InvalidChunkTerminator"
  | .InvalidContentLength => "InvalidContentLength" | .InvalidStatusCode => "InvalidStatusCode"
  | .MessageTooLong => "MessageTooLong" | .RequestLineNoMethodDelimiter => "RequestLineNoMethodDelimiter"
  | .RequestLineNoMethodOrExtraWhitespace => "RequestLineNoMethodOrExtraWhitespace"
  | .RequestLineNoTargetDelimiter => "RequestLineNoTargetDelimiter"
  | .RequestLineNoTargetOrExtraWhitespace => "RequestLineNoTargetOrExtraWhitespace"
  | .RequestLineNotValidText => "RequestLineNotValidText" | .RequestLineProtocol => "RequestLineProtocol"
  | .RequestLineTooLong => "RequestLineTooLong" | .RequestTargetUriInvalid => "RequestTargetUriInvalid"
  | .StatusCodeOutOfRange => "StatusCodeOutOfRange" | .StatusLineNoProtocolDelimiter => "StatusLineNoProtocolDelimiter"
  | .StatusLineNoStatusCodeDelimiter => "StatusLineNoStatusCodeDelimiter"
  | .StatusLineNotValidText => "StatusLineNotValidText" | .StatusLineProtocol => "StatusLineProtocol"
  | .Trailer e => s!"Trailer({herr e})"

def pk : PanicKind → String | .arithmetic => "arithmetic" | .capacity => "capacity" | .index => "index" | .alloc => "alloc"

def showHeaders (hs : List Header) : String :=
  ",".intercalate (hs.map fun h => hex h.name ++ ":" ++ hex h.value)
def showReserves (rs : List Reserve) : String :=
  ";".intercalate (rs.map fun r => s!"{r.site}:{r.len}:{r.additional}")

/-- URI oracle instance: answers recorded from the real rhymuri by the harness -/
def tableUri (tbl : List (Bytes × Option Bytes)) : UriImpl :=
  { U := Bytes, parse := fun t => (tbl.lookup t).join, display := id, default := [] }

def parseTable (s : String) : Option (List (Bytes × Option Bytes)) :=
  if s = "." then some [] else
  (s.splitOn ",").mapM fun e =>
    match e.splitOn "=" with
    | [k, v] => do
      let k ← unhex k
      if v = "!" then pure (k, none) else do let v ← unhex v; pure (k, some v)
    | _ => none

/-- the documented calling protocol -/
def runReq (u : UriImpl) (cfg : ReqCfg) : List Bytes → ReqState u → Bytes → List String → List Reserve → String
  | [], _, _, acc, rs => " ".intercalate acc.reverse ++ " | r=" ++ showReserves rs
  | d :: ds, s, pending, acc, rs =>
    let buf := pending ++ d
    match Request.parse u cfg s buf with
    | .err c => " ".intercalate (s!"E:{cat c}" :: acc).reverse
    | .panic k => " ".intercalate (s!"P:{pk k}" :: acc).reverse
    | .ok o =>
      match o.status with
      | .complete =>
        " ".intercalate (s!"C,{o.consumed}" :: acc).reverse ++
          s!" | m={hex o.st.method} t={hex (u.display o.st.target)} h={showHeaders o.st.headers} b={hex o.st.body} r={showReserves (rs ++ o.reserves)}"
      | .incomplete => runReq u cfg ds o.st (buf.drop o.consumed) (s!"I,{o.consumed}" :: acc) (rs ++ o.reserves)

def failStr : Fail → String
  | .err c => s!"E:{cat c}" | .panic k => s!"P:{pk k}" | .oof => "OOF"

/-- the same protocol through the generic `Sys` of the repaired request parser -/
def runReqSys (u : UriImpl) (cfg : ReqCfg) : List Bytes → ReqState u → Bytes → List String → String
  | [], _, _, acc => " ".intercalate acc.reverse ++ " |"
  | d :: ds, s, pending, acc =>
    let buf := pending ++ d
    match (requestSys u cfg).parse s buf with
    | .fail f => " ".intercalate (failStr f :: acc).reverse
    | .ok .complete st n =>
      " ".intercalate (s!"C,{n}" :: acc).reverse ++
        s!" | m={hex st.method} t={hex (u.display st.target)} h={showHeaders st.headers} b={hex st.body}"
    | .ok .incomplete st n => runReqSys u cfg ds st (buf.drop n) (s!"I,{n}" :: acc)

def runResp (cfg : RespCfg) : List Bytes → RespState → Bytes → List String → List Reserve → String
  | [], _, _, acc, rs => " ".intercalate acc.reverse ++ " | r=" ++ showReserves rs
  | d :: ds, s, pending, acc, rs =>
    let buf := pending ++ d
    match Response.parse cfg s buf with
    | .err c => " ".intercalate (s!"E:{cat c}" :: acc).reverse
    | .panic k => " ".intercalate (s!"P:{pk k}" :: acc).reverse
    | .ok o =>
      match o.status with
      | .complete =>
        " ".intercalate (s!"C,{o.consumed}" :: acc).reverse ++
          s!" | c={o.st.statusCode} p={hex o.st.reasonPhrase} h={showHeaders o.st.headers} b={hex o.st.body} x={hex o.st.trailer} r={showReserves (rs ++ o.reserves)}"
      | .incomplete => runResp cfg ds o.st (buf.drop o.consumed) (s!"I,{o.consumed}" :: acc) (rs ++ o.reserves)

/-- the response protocol through the normalised `respSys`; the real parser's habit of swallowing the
    rest of the completing delivery into `trailer` (declared-length framing only) is re-attached here -/
def runRespSys : List Bytes → RespState → Bytes → List String → String
  | [], _, _, acc => " ".intercalate acc.reverse ++ " |"
  | d :: ds, s, pending, acc =>
    let buf := pending ++ d
    match respSys.parse s buf with
    | .fail f => " ".intercalate (failStr f :: acc).reverse
    | .ok .complete st n =>
      let fixed := match st.phase with | .fixedBody _ => true | _ => false
      let consumed := if fixed then buf.length else n
      let trailing := if fixed then buf.drop n else []
      " ".intercalate (s!"C,{consumed}" :: acc).reverse ++
        s!" | c={st.statusCode} p={hex st.reasonPhrase} h={showHeaders st.headers} b={hex st.body} x={hex (st.trailer ++ trailing)}"
    | .ok .incomplete st n => runRespSys ds st (buf.drop n) (s!"I,{n}" :: acc)

def parseHeaders (s : String) : Option (List Header) :=
  if s = "." then some [] else
  (s.splitOn ",").mapM fun e =>
    match e.splitOn ":" with
    | [k, v] => do let k ← unhex (if k = "" then "." else k); let v ← unhex (if v = "" then "." else v); pure ⟨k, v⟩
    | _ => none

/-- decoder oracle: answers recorded from the real crate's single-layer decoding -/
def parseCodecTable (s : String) : Option (List (String × Bytes × Option Bytes)) :=
  if s = "." then some [] else
  (s.splitOn ",").mapM fun e =>
    match e.splitOn "=" with
    | [k, v] =>
      match k.splitOn "/" with
      | [tag, inp] => do
        let inp ← unhex (if inp = "" then "." else inp)
        if v = "!" then pure (tag, inp, none) else do let v ← unhex (if v = "" then "." else v); pure (tag, inp, some v)
      | _ => none
    | _ => none

def step (line : String) : String :=
  match line.trimAscii.toString.splitOn " " with
  | ["REQ", tree, ov, rl, hl, mx, tbl, ds] =>
    match optNat rl, optNat hl, optNat mx, parseTable tbl, (ds.splitOn "|").mapM unhex with
    | some rl, some hl, some mx, some tbl, some ds =>
      let u := tableUri tbl
      let cfg : ReqCfg := { rl := rl, hl := hl, max := mx, ov := ov = "1", tree := ⟨tree = "1"⟩ }
      if tree = "1" then runReqSys u cfg ds (Request.new u) [] []
      else runReq u cfg ds (Request.new u) [] [] []
    | _, _, _, _, _ => "bad-op"
  | ["RESP", tree, ov, hl, ds] =>
    match optNat hl, (ds.splitOn "|").mapM unhex with
    | some hl, some ds =>
      if tree = "1" && hl.isNone then runRespSys ds Response.new [] []
      else runResp { hl := hl, ov := ov = "1", tree := ⟨tree = "1"⟩ } ds Response.new [] [] []
    | _, _ => "bad-op"
  | ["DECODE", hs, body, tbl] =>
    match parseHeaders hs, unhex body, parseCodecTable tbl with
    | some hs, some body, some tbl =>
      let look (tag : String) (x : Bytes) : Option Bytes :=
        match tbl.find? (fun e => e.1 == tag && e.2.1 == x) with
        | some e => e.2.2
        | none => none
      let r := decodeBody (look "G") (look "F") hs body
      match r.2 with
      | some out => s!"OK {hex out} | h={showHeaders r.1}"
      | none => s!"ERR | h={showHeaders r.1}"
    | _, _, _ => "bad-op"
  | ["TEXT", hs, body] =>
    match parseHeaders hs, unhex body with
    | some hs, some body =>
      match decodeBodyAsText hs body with
      | .none => "NONE"
      | .some t => "SOME " ++ hex t
      | .unmodelled e => "UNMODELLED " ++ e
    | _, _ => "bad-op"
  | ["URI", b] =>
    match unhex b with
    | none => "bad-op"
    | some bs =>
      if !validUtf8 bs then "bad-op" else
      match Rhymuri.parse bs with
      | none => "ERR"
      | some u =>
        let o (x : Option Bytes) : String := match x with | some v => hex v | none => "-"
        let a : String := match u.authority with
          | some a => s!"{o a.userinfo},{hex a.host},{match a.port with | some p => toString p | none => "-"}"
          | none => "-"
        s!"OK s={o u.scheme} a={a} p={"/".intercalate (u.path.map hex)}|{u.path.length} q={o u.query} f={o u.fragment} d={hex (Rhymuri.display u)}"
  | ["GZ", b] => match unhex b with | some bs => (match gunzip bs with | some o => "OK " ++ hex o | none => "ERR") | none => "bad-op"
  | ["FL", b] => match unhex b with | some bs => (match inflateRaw bs with | some o => "OK " ++ hex o | none => "ERR") | none => "bad-op"
  | ["ZL", b] => match unhex b with | some bs => (match zlibDecode bs with | some o => "OK " ++ hex o | none => "ERR") | none => "bad-op"
  | _ => "bad-op"

partial def loop (h : IO.FS.Stream) : IO Unit := do
  let line ← h.getLine
  if line.isEmpty then return ()
  IO.println (step line)
  loop h

def main : IO Unit := do loop (← IO.getStdin)
