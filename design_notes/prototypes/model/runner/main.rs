// scratch differential runner: generates cases, writes op lines (ops.txt) and implementation results (impl.txt)
use rhymuweb::{Request, Response, RequestParseStatus, ResponseParseStatus, Error};
use std::io::Write;
use std::alloc::{GlobalAlloc, Layout, System};
struct Guard;
unsafe impl GlobalAlloc for Guard {
    unsafe fn alloc(&self, l: Layout) -> *mut u8 { if l.size() > (1usize << 30) { panic!("huge alloc {}", l.size()); } System.alloc(l) }
    unsafe fn dealloc(&self, p: *mut u8, l: Layout) { System.dealloc(p, l) }
    unsafe fn realloc(&self, p: *mut u8, l: Layout, n: usize) -> *mut u8 { if n > (1usize << 30) { panic!("huge alloc {}", n); } System.realloc(p, l, n) }
}
#[global_allocator] static G: Guard = Guard;
struct Rng(u64);
impl Rng { fn next(&mut self) -> u64 { self.0 ^= self.0 << 13; self.0 ^= self.0 >> 7; self.0 ^= self.0 << 17; self.0 }
  fn below(&mut self, n: usize) -> usize { (self.next() % (n as u64)) as usize }
  fn pick<'a, T>(&mut self, v: &'a [T]) -> &'a T { &v[self.below(v.len())] } }
fn hex(b: &[u8]) -> String { if b.is_empty() { return String::new(); } b.iter().map(|x| format!("{:02x}", x)).collect() }
fn hexd(b: &[u8]) -> String { if b.is_empty() { ".".into() } else { hex(b) } }
fn opt(o: Option<usize>) -> String { o.map(|v| v.to_string()).unwrap_or("-".into()) }
fn cat(e: &Error) -> String {
    let inner = |h: &rhymessage::Error| format!("{:?}", h).split(|c| c=='(' || c==' ' || c=='{').next().unwrap().to_string();
    match e { Error::Headers(h) => format!("Headers({})", inner(h)), Error::Trailer(h) => format!("Trailer({})", inner(h)),
        other => format!("{:?}", other).split(|c| c=='(' || c==' ' || c=='{').next().unwrap().to_string() }
}
fn pk(msg: &str) -> &'static str { if msg.contains("huge alloc") { "alloc" } else if msg.contains("capacity overflow") { "capacity" } else if msg.contains("overflow") { "arithmetic" } else { "index" } }
fn headers(h: &rhymessage::MessageHeaders) -> String { h.headers().iter().map(|h| format!("{}:{}", hex(h.name.as_ref().as_bytes()), hex(h.value.as_bytes()))).collect::<Vec<_>>().join(",") }
thread_local! { static LAST_PANIC: std::cell::RefCell<String> = std::cell::RefCell::new(String::new()); }

#[derive(Clone, Copy)] struct Cfg { rl: Option<usize>, hl: Option<usize>, max: Option<usize> }
fn run_req(cfg: Cfg, ds: &[Vec<u8>]) -> String {
    let mut r = Request::new(); r.request_line_limit = cfg.rl; r.headers.set_line_limit(cfg.hl); r.max_message_size = cfg.max;
    let mut buf: Vec<u8> = Vec::new(); let mut acc: Vec<String> = vec![];
    for d in ds {
        buf.extend_from_slice(d);
        match std::panic::catch_unwind(std::panic::AssertUnwindSafe(|| r.parse(&buf))) {
            Err(_) => { acc.push(format!("P:{}", LAST_PANIC.with(|p| pk(&p.borrow())))); return acc.join(" "); }
            Ok(Err(e)) => { acc.push(format!("E:{}", cat(&e))); return acc.join(" "); }
            Ok(Ok(res)) => { buf.drain(..res.consumed);
                if res.status == RequestParseStatus::Complete { acc.push(format!("C,{}", res.consumed));
                    return format!("{} | m={} t={} h={} b={}", acc.join(" "), hex(r.method.as_bytes()), hex(r.target.to_string().as_bytes()), headers(&r.headers), hex(&r.body)); }
                acc.push(format!("I,{}", res.consumed)); }
        }
    }
    format!("{} |", acc.join(" "))
}
fn run_resp(hl: Option<usize>, ds: &[Vec<u8>]) -> String {
    let mut r = Response::new(); r.headers.set_line_limit(hl);
    let mut buf: Vec<u8> = Vec::new(); let mut acc: Vec<String> = vec![];
    for d in ds {
        buf.extend_from_slice(d);
        match std::panic::catch_unwind(std::panic::AssertUnwindSafe(|| r.parse(&buf))) {
            Err(_) => { acc.push(format!("P:{}", LAST_PANIC.with(|p| pk(&p.borrow())))); return acc.join(" "); }
            Ok(Err(e)) => { acc.push(format!("E:{}", cat(&e))); return acc.join(" "); }
            Ok(Ok(res)) => { buf.drain(..res.consumed);
                if res.status == ResponseParseStatus::Complete { acc.push(format!("C,{}", res.consumed));
                    return format!("{} | c={} p={} h={} b={} x={}", acc.join(" "), r.status_code, hex(r.reason_phrase.as_bytes()), headers(&r.headers), hex(&r.body), hex(&r.trailer)); }
                acc.push(format!("I,{}", res.consumed)); }
        }
    }
    format!("{} |", acc.join(" "))
}
fn numeric(rng: &mut Rng) -> String { rng.pick(&["0", "3", "5", "05", "12", "x", "", "+3", "3 ", "-1", "0x3", "3,3", "9223372036854775808", "18446744073709551615", "18446744073709551596", "18446744073709551616", "100000000000000000000000000", "10000000", "9999990"]).to_string() }
fn gen_headers(rng: &mut Rng) -> (Vec<u8>, Vec<usize>) {
    let mut out = Vec::new(); let mut firsts = vec![];
    for _ in 0..rng.below(4) {
        let name = *rng.pick(&["Host", "X-Foo", "content-length", "Content-Length", "Transfer-Encoding", "TRANSFER-ENCODING", "Trailer", "A", "", "Bad Name", "N\u{e9}"]);
        let value: String = match name.to_ascii_lowercase().as_str() {
            "content-length" => numeric(rng),
            "transfer-encoding" => rng.pick(&["chunked", "Chunked", "gzip, chunked", "chunked, gzip", "gzip", "a,b , CHUNKED", "foo, bar, chunked", "chunked,", ",chunked"]).to_string(),
            _ => rng.pick(&["v", "a b", "", "x,y", "  pad  ", "t\tab", "nul\0", "\u{e9}"]).to_string(),
        };
        let before = out.len();
        out.extend(name.as_bytes()); if rng.below(12) > 0 { out.extend(b":"); } if rng.below(3) > 0 { out.push(b' '); } out.extend(value.as_bytes()); out.extend(b"\r\n");
        firsts.push(out.len() - before);
        if rng.below(5) == 0 { out.extend(*rng.pick(&[&b" cont\r\n"[..], b"\tc2 longer continuation\r\n", b" \r\n", b" bad\x01\r\n"])); }
    }
    out.extend(b"\r\n"); (out, firsts)
}
fn gen_chunked(rng: &mut Rng) -> Vec<u8> {
    let mut out = Vec::new();
    for _ in 0..rng.below(3) {
        let n = 1 + rng.below(6);
        let size = match rng.below(12) { 0 => "+3".to_string(), 1 => "ffffffffffffffff".into(), 2 => "g".into(), 3 => "".into(), 4 => format!("{:x} ", n), 5 => "10000000000000000".into(), 6 => "8000000000000000".into(), _ => if rng.below(2)==0 { format!("{:x}", n) } else { format!("0{:X}", n) } };
        out.extend(format!("{}{}\r\n", size, rng.pick(&["", ";a", ";a=b", ";x=\"y z\"", "\rjunk", " ;a"])).as_bytes());
        for _ in 0..n { out.push(*rng.pick(&[b'a', b'\r', b'\n', b'0', b' '])); }
        out.extend(*rng.pick(&[&b"\r\n"[..], b"\r\n", b"\r\n", b"\n", b"", b"\rx"]));
    }
    out.extend(*rng.pick(&[&b"0\r\n"[..], b"000;z\r\n", b"0\r\n"]));
    for _ in 0..rng.below(3) { out.extend(*rng.pick(&[&b"X-T: 1\r\n"[..], b"Host: h\r\n", b"T: a\r\n b\r\n", b"Content-Length: 9\r\n", b"Trailer: q\r\n", b"Transfer-Encoding: chunked\r\n", b"bad\r\n"])); }
    out.extend(b"\r\n"); out
}
fn mutate(rng: &mut Rng, v: &mut Vec<u8>) {
    if v.is_empty() { return; }
    let alpha = b"\r\n :;,0159afF+-\t\x00\x80x";
    match rng.below(4) { 0 => { let i = rng.below(v.len()); v[i] = *rng.pick(alpha); } 1 => { let i = rng.below(v.len()); v.remove(i); }
        2 => { let i = rng.below(v.len()+1); v.insert(i, *rng.pick(alpha)); } _ => { let i = rng.below(v.len()+1); v.truncate(i); } }
}
fn schedule(rng: &mut Rng, s: &[u8]) -> Vec<Vec<u8>> {
    match rng.below(5) {
        0 => vec![s.to_vec()],
        1 if !s.is_empty() => s.chunks(1).map(|c| c.to_vec()).collect(),
        2 if s.len() > 1 => { let c = 1 + rng.below(s.len()-1); vec![s[..c].to_vec(), s[c..].to_vec()] }
        3 => { // cut inside a CRLF if any
            let pos: Vec<usize> = s.windows(2).enumerate().filter(|(_, w)| w == b"\r\n").map(|(i, _)| i + 1).collect();
            if pos.is_empty() { vec![s.to_vec()] } else { let c = *rng.pick(&pos); vec![s[..c].to_vec(), s[c..].to_vec()] } }
        _ => { let mut out = vec![]; let mut i = 0; while i < s.len() { let n = 1 + rng.below(7); let e = (i + n).min(s.len()); out.push(s[i..e].to_vec()); i = e; } if out.is_empty() { out.push(vec![]); } out }
    }
}
fn main() {
    std::panic::set_hook(Box::new(|i| { let m = i.to_string(); LAST_PANIC.with(|p| *p.borrow_mut() = m); }));
    let args: Vec<String> = std::env::args().collect();
    let seed: u64 = args[1].parse().unwrap(); let n: usize = args[2].parse().unwrap(); let tree = &args[3]; let ov = if cfg!(debug_assertions) { "1" } else { "0" };
    let mut rng = Rng(seed | 1);
    let mut ops = std::io::BufWriter::new(std::fs::File::create("ops.txt").unwrap());
    let mut imp = std::io::BufWriter::new(std::fs::File::create("impl.txt").unwrap());
    for it in 0..n {
        let resp = it % 2 == 0;
        let good = rng.below(10) < 7;
        let start: Vec<u8> = if resp && good { rng.pick(&[&b"HTTP/1.1 200 OK\r\n"[..], b"HTTP/1.1 404 Not Found\r\n", b"HTTP/1.1 999 \r\n"]).to_vec() } else if good { rng.pick(&[&b"GET / HTTP/1.1\r\n"[..], b"POST /a%20b?q#f HTTP/1.1\r\n", b"M * HTTP/1.1\r\n"]).to_vec() } else if resp { rng.pick(&[&b"HTTP/1.1 200 OK\r\n"[..], b"HTTP/1.1 404 Not Found\r\n", b"HTTP/1.1 999 \r\n", b"HTTP/1.1 1000 x\r\n", b"HTTP/1.0 200 OK\r\n", b"HTTP/1.1 +200 OK\r\n", b"HTTP/1.1 200\r\n", b"HTTP/1.1  200 OK\r\n", b"http/1.1 200 OK\r\n", b"HTTP/1.1 0200 r\xc3\xa9ason\r\n", b"HTTP/1.1 200 \xff\r\n", b"HTTP/1.1 99999999999999999999 x\r\n", b"HTTP/1.1\r\n"]).to_vec() }
            else { rng.pick(&[&b"GET / HTTP/1.1\r\n"[..], b"POST /a%20b?q#f HTTP/1.1\r\n", b"M * HTTP/1.1\r\n", b"GET  / HTTP/1.1\r\n", b"GET / HTTP/1.10\r\n", b" GET / HTTP/1.1\r\n", b"GET /\r\n", b"GET\r\n", b"GET / HTTP/1.1 \r\n", b"GET /%zz HTTP/1.1\r\n", b"GET /\xc3\xa9 HTTP/1.1\r\n", b"G\xffT / HTTP/1.1\r\n", b"GET / http/1.1\r\n", b"GET http://[::FFFF:1.2.3.4]:+80/p HTTP/1.1\r\n", b"GET / HTTP/1.1\n"]).to_vec() };
        let mut s = start.clone();
        let (h, firsts) = gen_headers(&mut rng); s.extend(&h);
        let hs = String::from_utf8_lossy(&h).to_ascii_lowercase();
        if resp && hs.contains("chunked") && rng.below(4) > 0 { s.extend(gen_chunked(&mut rng)); } else { for _ in 0..rng.below(8) { s.push(*rng.pick(b"abc\r\n 0")); } }
        if rng.below(5) == 0 { mutate(&mut rng, &mut s); } if rng.below(10) == 0 { mutate(&mut rng, &mut s); }
        let around = |rng: &mut Rng, v: usize| -> Option<usize> { match rng.below(9) { 0 => None, 1 => Some(1000), 2 => Some(rng.below(3)), _ => Some((v + rng.below(5)).saturating_sub(2)) } };
        let ds = schedule(&mut rng, &s);
        let dstr = ds.iter().map(|d| hexd(d)).collect::<Vec<_>>().join("|");
        if resp {
            let hl = if rng.below(4) == 0 { around(&mut rng, *firsts.get(0).unwrap_or(&2)) } else { None };
            writeln!(ops, "RESP {} {} {} {}", tree, ov, opt(hl), dstr).unwrap();
            writeln!(imp, "{}", run_resp(hl, &ds)).unwrap();
        } else {
            let cfg = if rng.below(3) == 0 { Cfg { rl: Some(1000), hl: Some(1000), max: Some(10_000_000) } } else { Cfg { rl: around(&mut rng, start.len().saturating_sub(2)), hl: around(&mut rng, *firsts.get(0).unwrap_or(&2)), max: { let b = *rng.pick(&[s.len(), start.len() + h.len(), start.len() + h.len() + 3]); around(&mut rng, b) } } };
            // URI oracle table: the would-be target text of the first line
            let tbl = (|| { let e = s.windows(2).position(|w| w == b"\r\n")?; let line = std::str::from_utf8(&s[..e]).ok()?; let a = line.find(' ')?; let rest = &line[a+1..]; let b = rest.find(' ')?; let t = &rest[..b]; if t.is_empty() { return None; }
                Some(match rhymuri::Uri::parse(t) { Ok(u) => format!("{}={}", hex(t.as_bytes()), hexd(u.to_string().as_bytes())), Err(_) => format!("{}=!", hex(t.as_bytes())) }) })().unwrap_or(".".into());
            writeln!(ops, "REQ {} {} {} {} {} {} {}", tree, ov, opt(cfg.rl), opt(cfg.hl), opt(cfg.max), tbl, dstr).unwrap();
            writeln!(imp, "{}", run_req(cfg, &ds)).unwrap();
        }
    }
}
