#!/bin/bash
# usage: cmp.sh <profile: debug|release> <seed> <n> <tree 0|1>
./target/$1/dr $2 $3 $4 2>/dev/null; rc=$?
/root/scratch/hm/.lake/build/bin/httpmodel < ops.txt | sed 's/ r=[^ ]*$//; s/ *$//' > model.txt
sed 's/ *$//' impl.txt > impl2.txt
n=$(wc -l < impl2.txt); d=$(diff impl2.txt <(head -$n model.txt) | grep -c '^<')
echo "profile=$1 seed=$2 tree=$4 rc=$rc cases=$n diffs=$d  complete=$(grep -c 'C,' impl2.txt) errors=$(grep -c 'E:' impl2.txt) panics=$(grep -c 'P:' impl2.txt) incomplete=$(grep -vc 'C,\|E:\|P:' impl2.txt)"
diff impl2.txt <(head -$n model.txt) | head -${5:-6}
