def hello := "world"
