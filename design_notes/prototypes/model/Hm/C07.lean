import Hm.Response

/-! C07 (second sentence) on the instrumented model of the repaired tree: no reservation exceeds the
    bytes presented in the same call -/

theorem vecReserve_additional {site : String} {len add : Nat} {r : Reserve}
    (h : (vecReserve site len add : Out Reserve) = .ok r) : r.additional = add := by
  unfold vecReserve at h
  split at h
  · simp at h
  · split at h
    · simp at h
    · simp at h; subst h; rfl

variable {u : UriImpl}

theorem request_headers_reserve (cfg : ReqCfg) (hrep : cfg.tree.repaired = true) (s : ReqState u) (raw : Bytes)
    (po : PhaseOut (ReqState u)) (h : parseMessageForHeaders cfg s raw = .ok po) :
    ∀ r ∈ po.reserves, r.additional ≤ raw.length := by
  unfold parseMessageForHeaders at h
  simp only [hrep, if_true] at h
  cases hp : (liftH Cat.Headers (Headers.parse cfg.hl s.headers (stripDanglingCr raw)) : Out _) with
  | err e => simp [hp, bind, Outcome.bind] at h
  | panic k => simp [hp, bind, Outcome.bind] at h
  | ok r0 =>
    obtain ⟨hs, st, c0⟩ := r0
    simp only [hp, bind, Outcome.bind] at h
    cases hc : countBytes cfg { s with headers := hs } c0 with
    | err e => simp [hc] at h
    | panic k => simp [hc] at h
    | ok s1 =>
      simp only [hc] at h
      cases st with
      | incomplete => simp at h; subst h; simp
      | complete =>
        simp only at h
        cases hv : headerValue hs kContentLength with
        | none => simp [hv] at h; subst h; simp
        | some v =>
          simp only [hv] at h
          cases hn : parseNumber cfg.tree 10 v with
          | none => simp [hn] at h
          | some cl =>
            simp only [hn] at h
            cases hc2 : countBytes cfg s1 cl with
            | err e => simp [hc2] at h
            | panic k => simp [hc2] at h
            | ok s2 =>
              simp only [hc2] at h
              cases hr : (vecReserve "request.body" s2.body.length (min cl ((stripDanglingCr raw).length - c0)) : Out Reserve) with
              | err e => simp [hr] at h
              | panic k => simp [hr] at h
              | ok r =>
                simp only [hr] at h
                simp at h; subst h
                intro r' hr'
                simp at hr'; subst hr'
                rw [vecReserve_additional hr]
                have : (stripDanglingCr raw).length ≤ raw.length := by
                  unfold stripDanglingCr; split <;> simp
                omega
