import Hm.FuelMono
import Hm.C13EndToEnd

/-! C15, hypothesis-free instance: every strict prefix of a level-0 gzip member is rejected -/

/-- for every body split into stored-block pieces and every header bytes: the member decodes (C13), and
    cutting it anywhere — inside the header, a block header, the data, the CRC or the length — makes
    `gunzip` return nothing.  (Also the non-vacuity witness of `C15_gunzip_truncated`.) -/
theorem C15_gzipStored_every_prefix_rejected (ds : List Bytes) (hne : ds ≠ []) (hl : ∀ d ∈ ds, d.length ≤ 65535)
    (m0 m1 m2 m3 xfl os : UInt8) (k : Nat) (hk : k < (gzipStored ds m0 m1 m2 m3 xfl os).length) :
    gunzip ((gzipStored ds m0 m1 m2 m3 xfl os).take k) = none :=
  C15_gunzip_truncated _ (gunzipR_gzipStored ds hne hl m0 m1 m2 m3 xfl os) (by omega) k hk
