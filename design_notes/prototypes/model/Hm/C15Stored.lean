import Hm.FuelMono
import Hm.C13EndToEnd

/-! C15, hypothesis-free instance: every strict prefix of a level-0 gzip member is rejected -/

/-- for every body split into stored-block pieces and every header bytes: the member decodes (C13), and
    cutting it anywhere — inside the header, a block header, the data, the CRC or the length — makes
    `gunzip` return nothing.  (Also the non-vacuity witness of `C15_gunzip_truncated`.) -/
theorem C15_gzipStored_every_prefix_rejected (ds : List Bytes) (hne : ds ≠ []) (hl : ∀ d ∈ ds, d.length ≤ 65535)
    (m0 m1 m2 m3 xfl os : UInt8) (k : Nat) (hk : k < (gzipStored ds m0 m1 m2 m3 xfl os).length) :
    gunzip ((gzipStored ds m0 m1 m2 m3 xfl os).take k) = none :=
  C15_gunzip_truncated _ (gunzipR_gzipStored ds hne hl m0 m1 m2 m3 xfl os) (by omega) k hk

/-- the same for the zlib form (`deflate` per RFC 7230) … -/
theorem C15_zlibStored_every_prefix_rejected (ds : List Bytes) (hne : ds ≠ []) (hl : ∀ d ∈ ds, d.length ≤ 65535)
    (ad : Bytes) (had : ad.length = 4)
    (hsum : ad.foldl (fun acc b => acc * 256 + b.toNat) 0 = adler32 ds.flatten.toArray)
    (k : Nat) (hk : k < ([0x78, 0x01] ++ storedEnc ds ++ ad : Bytes).length) :
    zlibDecode (([0x78, 0x01] ++ storedEnc ds ++ ad : Bytes).take k) = none :=
  C15_zlibDecode_truncated _ (zlibR_zlibStored ds hne hl ad had hsum) (by omega) k hk

/-- … and for the bare deflate stream -/
theorem C15_rawStored_every_prefix_rejected (ds : List Bytes) (hne : ds ≠ []) (hl : ∀ d ∈ ds, d.length ≤ 65535)
    (k : Nat) (hk : k < (storedEnc ds).length) :
    inflateRaw ((storedEnc ds).take k) = none :=
  C15_inflateRaw_truncated _ (by simpa using C13_inflate_stored_blocks ds hne hl) (by omega) k hk
