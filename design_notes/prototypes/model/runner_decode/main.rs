use rhymuweb::coding;
use rhymessage::{MessageHeaders, Header};
use std::io::Write;
struct Rng(u64);
impl Rng { fn next(&mut self) -> u64 { self.0 ^= self.0 << 13; self.0 ^= self.0 >> 7; self.0 ^= self.0 << 17; self.0 }
  fn below(&mut self, n: usize) -> usize { (self.next() % (n as u64)) as usize }
  fn pick<'a, T>(&mut self, v: &'a [T]) -> &'a T { &v[self.below(v.len())] } }
fn hex(b: &[u8]) -> String { b.iter().map(|x| format!("{:02x}", x)).collect() }
fn hexd(b: &[u8]) -> String { if b.is_empty() { ".".into() } else { hex(b) } }
fn hdrs(h: &MessageHeaders) -> String { h.headers().iter().map(|h| format!("{}:{}", hex(h.name.as_ref().as_bytes()), hex(h.value.as_bytes()))).collect::<Vec<_>>().join(",") }
fn randcase(rng: &mut Rng, s: &str) -> String { s.chars().map(|c| if rng.below(2)==0 { c.to_ascii_uppercase() } else { c.to_ascii_lowercase() }).collect() }
fn enc(kind: &str, lvl: u32, data: &[u8]) -> Vec<u8> {
    let c = flate2::Compression::new(lvl);
    match kind { "gzip" => { let mut e = flate2::write::GzEncoder::new(Vec::new(), c); e.write_all(data).unwrap(); e.finish().unwrap() }
        _ => { let mut e = flate2::write::DeflateEncoder::new(Vec::new(), c); e.write_all(data).unwrap(); e.finish().unwrap() } }
}
fn single(kind: &str, x: &[u8]) -> Option<Vec<u8>> { let mut h = MessageHeaders::new(); h.set_header("Content-Encoding", kind); coding::decode_body(&mut h, x).ok() }
fn main() {
    let args: Vec<String> = std::env::args().collect(); let seed: u64 = args[1].parse().unwrap(); let n: usize = args[2].parse().unwrap();
    let mut rng = Rng(seed | 1);
    let mut ops = std::io::BufWriter::new(std::fs::File::create("ops.txt").unwrap());
    let mut imp = std::io::BufWriter::new(std::fs::File::create("impl.txt").unwrap());
    for _ in 0..n {
        let data: Vec<u8> = (0..rng.below(40)).map(|_| *rng.pick(b"abcabc\0\xff ")).collect();
        let depth = rng.below(4); let mut body = data.clone(); let mut toks: Vec<String> = Vec::new();
        for _ in 0..rng.below(3) { toks.push(rng.pick(&["foobar", "identity", "x-unknown", "", "a b"]).to_string()); }
        for _ in 0..depth { let k = *rng.pick(&["gzip", "deflate"]); body = enc(k, rng.below(10) as u32, &body); toks.push(k.to_string()); if rng.below(8)==0 { toks.push(rng.pick(&["foobar",""]).to_string()); } }
        if rng.below(6) == 0 && !body.is_empty() { let k = rng.below(body.len()); body.truncate(k); }
        let mut h = MessageHeaders::new();
        if rng.below(2)==0 { h.add_header(Header{ name: "X-Before".into(), value: "1".into() }); }
        let fmt = |rng: &mut Rng, t: &[String]| t.iter().map(|x| format!("{}{}{}", rng.pick(&[""," ","\t"]), randcase(rng, x), rng.pick(&[""," "]))).collect::<Vec<_>>().join(",");
        if !toks.is_empty() || rng.below(3)==0 {
            let split = if toks.is_empty() { 0 } else { rng.below(toks.len()+1) };
            if split > 0 && split < toks.len() { let a = fmt(&mut rng, &toks[..split]); let b = fmt(&mut rng, &toks[split..]);
                h.add_header(Header{ name: randcase(&mut rng, "content-encoding").as_str().into(), value: a }); h.add_header(Header{ name: "X-Mid".into(), value: "2".into() }); h.add_header(Header{ name: "Content-Encoding".into(), value: b });
            } else { let a = fmt(&mut rng, &toks); h.add_header(Header{ name: randcase(&mut rng, "content-encoding").as_str().into(), value: a }); } }
        for _ in 0..rng.below(3) { h.add_header(Header{ name: randcase(&mut rng, "content-length").as_str().into(), value: "999".into() }); }
        if rng.below(2)==0 { h.add_header(Header{ name: "X-After".into(), value: "3".into() }); }
        // codec oracle: BFS over single-layer decodings of the body, depth <= 4
        let mut table: Vec<String> = vec![]; let mut frontier = vec![body.clone()];
        for _ in 0..4 { let mut next = vec![]; for x in &frontier { for (tag, kind) in [("G","gzip"),("F","deflate")] { let r = single(kind, x);
                    table.push(format!("{}/{}={}", tag, hex(x), match &r { Some(o) => hexd(o), None => "!".into() })); if let Some(o) = r { next.push(o); } } } frontier = next; if frontier.is_empty() { break; } }
        let hs = if h.headers().is_empty() { ".".to_string() } else { hdrs(&h) };
        writeln!(ops, "DECODE {} {} {}", hs, hexd(&body), if table.is_empty() { ".".into() } else { table.join(",") }).unwrap();
        let r = coding::decode_body(&mut h, &body);
        match r { Ok(o) => writeln!(imp, "OK {} | h={}", hex(&o), hdrs(&h)).unwrap(), Err(_) => writeln!(imp, "ERR | h={}", hdrs(&h)).unwrap() }
    }
}
