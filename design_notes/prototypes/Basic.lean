abbrev Bytes := List UInt8

def CR : UInt8 := 13
def LF : UInt8 := 10

/-- index of first CRLF pair, as `find_crlf` in src/lib.rs -/
def findCrlf : Bytes → Option Nat
  | [] => none
  | [_] => none
  | a :: b :: rest =>
    if a = CR ∧ b = LF then some 0
    else (findCrlf (b :: rest)).map (· + 1)

theorem findCrlf_append_of_some {b : Bytes} {i : Nat} (h : findCrlf b = some i) (d : Bytes) :
    findCrlf (b ++ d) = some i := by
  fun_induction findCrlf b generalizing i with
  | case1 => simp at h
  | case2 => simp at h
  | case3 a b rest hc => simp_all [findCrlf]
  | case4 a b rest hc ih =>
    simp only [Option.map_eq_some_iff] at h
    obtain ⟨j, hj, rfl⟩ := h
    have := ih hj
    simp only [List.cons_append] at this ⊢
    simp [findCrlf, hc, this]

theorem findCrlf_lt {b : Bytes} {i : Nat} (h : findCrlf b = some i) : i + 2 ≤ b.length := by
  fun_induction findCrlf b generalizing i with
  | case1 => simp at h
  | case2 => simp at h
  | case3 a b rest hc => simp_all; omega
  | case4 a b rest hc ih =>
    simp only [Option.map_eq_some_iff] at h
    obtain ⟨j, hj, rfl⟩ := h
    have := ih hj
    simp at *; omega

#eval findCrlf [71, 13, 10, 13, 10]
