import Lt.Basic

/-! prototype model of rhymessage 1.3.1 `MessageHeaders::parse` (suffix style, fuelled) -/

def SP : UInt8 := 32
def HT : UInt8 := 9
def COLON : UInt8 := 58

def isWsp (b : UInt8) : Bool := b == SP || b == HT
def isGraphic (b : UInt8) : Bool := 33 ≤ b && b ≤ 126
def validName (n : Bytes) : Bool := n.all isGraphic
def validValue (v : Bytes) : Bool := v.all fun b => isWsp b || isGraphic b

def trimStart (v : Bytes) : Bytes := v.dropWhile isWsp
def trimEnd (v : Bytes) : Bytes := (v.reverse.dropWhile isWsp).reverse
def trim (v : Bytes) : Bytes := trimEnd (trimStart v)

/-- stand-in for `std::str::from_utf8(..).is_ok()` in this prototype -/
def validText (_ : Bytes) : Bool := true

structure Header where
  name : Bytes
  value : Bytes
deriving DecidableEq, Repr

inductive HErr where
  | tooLong | invalidText | missingColon | illegalName | illegalValue
deriving DecidableEq, Repr

inductive HStatus where | complete | incomplete
deriving DecidableEq, Repr

/-- `unfold_header` (lib.rs:129-172): `none` = ran out of complete lines -/
def unfold : Nat → Bytes → Bytes → Nat → Except HErr (Option (Bytes × Nat))
  | 0, _, _, _ => .ok none
  | fuel + 1, raw, value, consumed =>
    match findCrlf raw with
    | none => .ok none
    | some i =>
      let line := raw.take i
      if !validText line then .error .invalidText
      else if i > 0 && (line.head?.map isWsp).getD false then
        if !validValue line then .error .illegalValue
        else unfold fuel (raw.drop (i + 2)) (value ++ [SP] ++ trim line) (consumed + i + 2)
      else .ok (some (value, consumed))

/-- the `while offset < raw_message.len()` loop of `parse` (lib.rs:508-600), on the unconsumed suffix -/
def parseLoop (limit : Option Nat) : Nat → List Header → Bytes → Nat →
    Except HErr (List Header × HStatus × Nat)
  | 0, hs, _, off => .ok (hs, .incomplete, off)
  | fuel + 1, hs, rest, off =>
    if rest = [] then .ok (hs, .incomplete, off) else
    match findCrlf rest with
    | none =>
      match limit with
      | some lim => if rest.length + 2 > lim then .error .tooLong else .ok (hs, .incomplete, off)
      | none => .ok (hs, .incomplete, off)
    | some i =>
      if (match limit with | some lim => decide (i + 2 > lim) | none => false) then .error .tooLong
      else if i = 0 then .ok (hs, .complete, off + 2)
      else
        let line := rest.take i
        if !validText line then .error .invalidText else
        match line.idxOf? COLON with
        | none => .error .missingColon
        | some c =>
          let name := line.take c
          if !validName name then .error .illegalName else
          let v0 := line.drop (c + 1)
          if !validValue v0 then .error .illegalValue else
          match unfold fuel (rest.drop (i + 2)) v0 0 with
          | .error e => .error e
          | .ok none => .ok (hs, .incomplete, off)
          | .ok (some (v, n)) =>
            parseLoop limit fuel (hs ++ [⟨name, trim v⟩]) (rest.drop (i + 2 + n)) (off + i + 2 + n)

def hparse (limit : Option Nat) (hs : List Header) (raw : Bytes) :=
  parseLoop limit (raw.length + 1) hs raw 0

def s2b (s : String) : Bytes := s.toUTF8.toList
#eval hparse none [] (s2b "From: joe@example.com\r\n")
#eval hparse none [] (s2b "From: joe@example.com\r\nTo: sal\r\n")
#eval hparse none [] (s2b "Subject: Hello,\r\n World!\r\n\r\n")
#eval hparse (some 8) [] (s2b "A: bcd\r")
#eval hparse (some 8) [] (s2b "A: bcd\r\n\r\n")
