import Lt.Hdr

/-! same parser, loop body factored: isolate substrings first, then pure functions of them -/

inductive Step where
  | more
  | done
  | field (h : Header) (n : Nat)
deriving DecidableEq, Repr

def overLimit (limit : Option Nat) (n : Nat) : Bool :=
  match limit with | some lim => decide (n > lim) | none => false

/-- pure function of one complete first line: name and raw first value segment -/
def parseFirstLine (line : Bytes) : Except HErr (Bytes × Bytes) :=
  if !validText line then .error .invalidText else
  match line.idxOf? COLON with
  | none => .error .missingColon
  | some c =>
    if !validName (line.take c) then .error .illegalName
    else if !validValue (line.drop (c + 1)) then .error .illegalValue
    else .ok (line.take c, line.drop (c + 1))

/-- what to do once the first line `rest.take i` and the look-ahead result are known -/
def finishField (i : Nat) (name : Bytes) : Except HErr (Option (Bytes × Nat)) → Except HErr Step
  | .error e => .error e
  | .ok none => .ok .more
  | .ok (some (v, n)) => .ok (.field ⟨name, trim v⟩ (i + 2 + n))

def headerStep (limit : Option Nat) (rest : Bytes) : Except HErr Step :=
  if rest = [] then .ok .more else
  match findCrlf rest with
  | none => if overLimit limit (rest.length + 2) then .error .tooLong else .ok .more
  | some i =>
    if overLimit limit (i + 2) then .error .tooLong
    else if i = 0 then .ok .done
    else match parseFirstLine (rest.take i) with
      | .error e => .error e
      | .ok (name, v0) => finishField i name (unfold (rest.length + 1) (rest.drop (i + 2)) v0 0)

def loop2 (limit : Option Nat) : Nat → List Header → Bytes → Nat →
    Except HErr (List Header × HStatus × Nat)
  | 0, hs, _, off => .ok (hs, .incomplete, off)
  | fuel + 1, hs, rest, off =>
    match headerStep limit rest with
    | .error e => .error e
    | .ok .more => .ok (hs, .incomplete, off)
    | .ok .done => .ok (hs, .complete, off + 2)
    | .ok (.field h n) => loop2 limit fuel (hs ++ [h]) (rest.drop n) (off + n)

def hparse2 (limit : Option Nat) (hs : List Header) (raw : Bytes) :=
  loop2 limit (raw.length + 1) hs raw 0

#eval hparse2 none [] (s2b "Subject: Hello,\r\n World!\r\n\r\n")
#eval hparse2 (some 8) [] (s2b "A: bcd\r")
