import Lt.Hdr

theorem take_append_of_findCrlf {b : Bytes} {i : Nat} (h : findCrlf b = some i) (d : Bytes) :
    (b ++ d).take i = b.take i := by
  have := findCrlf_lt h
  rw [List.take_append_of_le_length (by omega)]

theorem drop_append_of_le {b : Bytes} {k : Nat} (h : k ≤ b.length) (d : Bytes) :
    (b ++ d).drop k = b.drop k ++ d := by
  rw [List.drop_append_of_le_length h]

/-- look-ahead that succeeded keeps succeeding, identically, when more bytes follow -/
theorem unfold_append {f : Nat} {raw v : Bytes} {c : Nat} {r : Bytes × Nat}
    (h : unfold f raw v c = .ok (some r)) (d : Bytes) :
    unfold f (raw ++ d) v c = .ok (some r) := by
  induction f generalizing raw v c with
  | zero => simp [unfold] at h
  | succ f ih =>
    unfold unfold at h ⊢
    cases hf : findCrlf raw with
    | none => simp [hf] at h
    | some i =>
      have hlt := findCrlf_lt hf
      simp only [hf] at h
      simp only [findCrlf_append_of_some hf d, take_append_of_findCrlf hf d,
        drop_append_of_le (show i + 2 ≤ raw.length by omega) d]
      split at h
      · simp_all
      · split at h
        · split at h
          · simp_all
          · rename_i h1 h2 h3
            simp only [h1, h2, h3]
            simpa using ih h
        · rename_i h1 h2
          simp only [h1, h2]
          simpa using h

/-- consumed count of a successful look-ahead stays inside the buffer -/
theorem unfold_consumed_le {f : Nat} {raw v : Bytes} {c : Nat} {r : Bytes × Nat}
    (h : unfold f raw v c = .ok (some r)) : r.2 ≤ c + raw.length := by
  induction f generalizing raw v c with
  | zero => simp [unfold] at h
  | succ f ih =>
    unfold unfold at h
    cases hf : findCrlf raw with
    | none => simp [hf] at h
    | some i =>
      have hlt := findCrlf_lt hf
      simp only [hf] at h
      split at h
      · simp at h
      · split at h
        · split at h
          · simp at h
          · have := ih h
            simp at this; omega
        · simp at h; subst h; simp

