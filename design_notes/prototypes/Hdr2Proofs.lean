import Lt.Hdr2
import Lt.HdrProofs0

/-- fuel irrelevance for the look-ahead, success case -/
theorem unfold_fuel_mono {f : Nat} {raw v : Bytes} {c : Nat} {r : Bytes × Nat}
    (h : unfold f raw v c = .ok (some r)) (k : Nat) : unfold (f + k) raw v c = .ok (some r) := by
  induction f generalizing raw v c with
  | zero => simp [unfold] at h
  | succ f ih =>
    rw [show f + 1 + k = (f + k) + 1 by omega]
    unfold unfold at h ⊢
    cases hf : findCrlf raw with
    | none => simp [hf] at h
    | some i =>
      simp only [hf] at h ⊢
      split at h
      · simp_all
      · split at h
        · split at h
          · simp_all
          · rename_i h1 h2 h3
            simp only [h1, h2, h3]
            simpa using ih h
        · rename_i h1 h2
          simp only [h1, h2]
          simpa using h

/-- simulation: a step that produced a field produces the same field on any extension -/
theorem headerStep_append_field {limit : Option Nat} {rest : Bytes} {h : Header} {n : Nat}
    (hs : headerStep limit rest = .ok (.field h n)) (d : Bytes) :
    headerStep limit (rest ++ d) = .ok (.field h n) ∧ n ≤ rest.length := by
  unfold headerStep at hs ⊢
  by_cases hr : rest = []
  · simp [hr] at hs
  · have hr' : rest ++ d ≠ [] := by simp [hr]
    rw [if_neg hr] at hs; rw [if_neg hr']
    cases hf : findCrlf rest with
    | none => simp only [hf] at hs; split at hs <;> simp at hs
    | some i =>
      have hlt := findCrlf_lt hf
      simp only [hf] at hs
      simp only [findCrlf_append_of_some hf d, take_append_of_findCrlf hf d,
        drop_append_of_le (show i + 2 ≤ rest.length by omega) d]
      by_cases hlim : overLimit limit (i + 2) = true
      · simp [hlim] at hs
      · rw [if_neg hlim] at hs ⊢
        by_cases h0 : i = 0
        · simp [h0] at hs
        · rw [if_neg h0] at hs ⊢
          cases hp : parseFirstLine (rest.take i) with
          | error e => simp [hp] at hs
          | ok nv =>
            obtain ⟨name, v0⟩ := nv
            simp only [hp] at hs ⊢
            cases hu : unfold (rest.length + 1) (rest.drop (i + 2)) v0 0 with
            | error e => simp [hu, finishField] at hs
            | ok o =>
              cases o with
              | none => simp [hu, finishField] at hs
              | some vn =>
                obtain ⟨v, m⟩ := vn
                have hm := unfold_consumed_le hu
                have hu' := unfold_append (unfold_fuel_mono hu d.length) d
                rw [show (rest ++ d).length + 1 = rest.length + 1 + d.length by simp; omega, hu']
                simp only [hu, finishField] at hs ⊢
                simp at hs hm
                obtain ⟨rfl, rfl⟩ := hs
                exact ⟨rfl, by omega⟩

theorem headerStep_append_done {limit : Option Nat} {rest : Bytes}
    (hs : headerStep limit rest = .ok .done) (d : Bytes) :
    headerStep limit (rest ++ d) = .ok .done ∧ 2 ≤ rest.length := by
  unfold headerStep at hs ⊢
  by_cases hr : rest = []
  · simp [hr] at hs
  · have hr' : rest ++ d ≠ [] := by simp [hr]
    rw [if_neg hr] at hs; rw [if_neg hr']
    cases hf : findCrlf rest with
    | none => simp only [hf] at hs; split at hs <;> simp at hs
    | some i =>
      have hlt := findCrlf_lt hf
      simp only [hf] at hs
      simp only [findCrlf_append_of_some hf d, take_append_of_findCrlf hf d]
      by_cases hlim : overLimit limit (i + 2) = true
      · simp [hlim] at hs
      · rw [if_neg hlim] at hs ⊢
        by_cases h0 : i = 0
        · simp [h0]; omega
        · rw [if_neg h0] at hs
          exfalso
          cases hp : parseFirstLine (rest.take i) with
          | error e => simp [hp] at hs
          | ok nv =>
            obtain ⟨name, v0⟩ := nv
            simp only [hp] at hs
            cases hu : unfold (rest.length + 1) (rest.drop (i + 2)) v0 0 with
            | error e => simp [hu, finishField] at hs
            | ok o => cases o <;> simp [hu, finishField] at hs

/-- P1 for the header block: completion is stable under extension, with the same fuel -/
theorem loop2_append_complete {limit : Option Nat} {f : Nat} {hs hs' : List Header}
    {rest : Bytes} {off c : Nat}
    (h : loop2 limit f hs rest off = .ok (hs', .complete, c)) (d : Bytes) :
    loop2 limit f hs (rest ++ d) off = .ok (hs', .complete, c) := by
  induction f generalizing hs rest off with
  | zero => simp [loop2] at h
  | succ f ih =>
    unfold loop2 at h ⊢
    split at h
    · simp at h
    · simp at h
    · rename_i hd
      rw [(headerStep_append_done hd d).1]; simpa using h
    · rename_i hh n hf
      obtain ⟨h1, h2⟩ := headerStep_append_field hf d
      rw [h1]; simp only
      rw [drop_append_of_le h2 d]
      exact ih h
