#!/bin/bash
# Offline build of the framework: Lean model + theorems + driver, Rust executor (dev and release).
set -e
cd "$(dirname "$0")"
export CARGO_NET_OFFLINE=true
(cd lean && lake build Hm httpmodel)
(cd harness && cp -f /repo/Cargo.lock Cargo.lock 2>/dev/null || true; cargo build --offline --quiet && cargo build --offline --quiet --release)
echo "setup done"
