#!/usr/bin/env python3
"""development tool: pin the statements of all theorems listed in lean/theorems.json"""
import os, sys
sys.path.insert(0, os.path.dirname(os.path.dirname(os.path.abspath(__file__))))
from vlib import proofs
proofs.write_lock()
