import zlib, sys
LB=[3,4,5,6,7,8,9,10,11,13,15,17,19,23,27,31,35,43,51,59,67,83,99,115,131,163,195,227,258]
LE=[0,0,0,0,0,0,0,0,1,1,1,1,2,2,2,2,3,3,3,3,4,4,4,4,5,5,5,5,0]
DB=[1,2,3,4,5,7,9,13,17,25,33,49,65,97,129,193,257,385,513,769,1025,1537,2049,3073,4097,6145,8193,12289,16385,24577]
DE=[0,0,0,0,1,1,2,2,3,3,4,4,5,5,6,6,7,7,8,8,9,9,10,10,11,11,12,12,13,13]
ORDER=[16,17,18,0,8,7,9,6,10,5,11,4,12,3,13,2,14,1,15]
class BR:
    def __init__(s,b): s.b=b; s.p=0
    def bit(s):
        v=(s.b[s.p//8]>>(s.p%8))&1; s.p+=1; return v
    def bits(s,n):
        v=0
        for i in range(n): v|=s.bit()<<i
        return v
def mk(lens):
    cnt=[0]*16
    for l in lens: cnt[l]+=1
    cnt[0]=0
    syms=[s for l in range(1,16) for s in range(len(lens)) if lens[s]==l]
    return cnt,syms
def dec(br,h):
    cnt,syms=h; code=first=index=0
    for l in range(1,16):
        code|=br.bit(); c=cnt[l]
        if code-c<first: return syms[index+(code-first)]
        index+=c; first+=c; first<<=1; code<<=1
    raise Exception("bad")
def parse(raw):
    br=BR(raw); blocks=[]
    while True:
        final=br.bit(); t=br.bits(2)
        if t==0:
            br.p=(br.p+7)//8*8; ln=br.bits(16); br.bits(16)
            d=bytes(br.bits(8) for _ in range(ln)); blocks.append(("stored",d))
        else:
            if t==1:
                lit=mk([8]*144+[9]*112+[7]*24+[8]*8); dist=mk([5]*30); hdr=None
            else:
                hlit=br.bits(5); hdist=br.bits(5); hclen=br.bits(4)
                clv=[br.bits(3) for _ in range(hclen+4)]
                cll=[0]*19
                for k,v in enumerate(clv): cll[ORDER[k]]=v
                cl=mk(cll); lens=[]; cls=[]
                while len(lens)<hlit+257+hdist+1:
                    s=dec(br,cl)
                    if s<16: lens.append(s); cls.append(("len",s))
                    elif s==16: r=br.bits(2); lens+= [lens[-1]]*(3+r); cls.append(("rep",r))
                    elif s==17: r=br.bits(3); lens+=[0]*(3+r); cls.append(("z3",r))
                    else: r=br.bits(7); lens+=[0]*(11+r); cls.append(("z11",r))
                lit=mk(lens[:hlit+257]); dist=mk(lens[hlit+257:]); hdr=(hlit,hdist,hclen,clv,cls,lens)
            toks=[]
            while True:
                s=dec(br,lit)
                if s<256: toks.append(("lit",s))
                elif s==256: break
                else:
                    ls=s-257; eb=br.bits(LE[ls]); ds=dec(br,dist); db=br.bits(DE[ds]); toks.append(("mat",ls,eb,ds,db))
            blocks.append(("fixed",toks) if t==1 else ("dyn",hdr,toks))
        if final: break
    parse.nbits=br.p
    return blocks
def lean_tok(t): return "Tok.lit %d"%t[1] if t[0]=="lit" else "Tok.mat %d %d %d %d"%t[1:]
def lean_block(b):
    if b[0]=="stored": return "Block.stored [%s]"%", ".join(map(str,b[1]))
    if b[0]=="fixed": return "Block.fixed [%s]"%", ".join(map(lean_tok,b[1]))
    hlit,hdist,hclen,clv,cls,lens=b[1]
    c=", ".join({"len":"ClSym.len %d","rep":"ClSym.rep %d","z3":"ClSym.z3 %d","z11":"ClSym.z11 %d"}[k]%v for k,v in cls)
    return "Block.dyn ⟨%d, %d, %d, [%s], [%s]⟩ [%s] [%s]"%(hlit,hdist,hclen,", ".join(map(str,clv)),c,", ".join(map(str,lens)),", ".join(map(lean_tok,b[2])))
if __name__=="__main__":
    data=open(sys.argv[1],"rb").read() if len(sys.argv)>1 else (b"the quick brown fox jumps over the lazy dog; "*3+b"pack my box with five dozen liquor jugs. "*2+bytes(range(60,100)))
    c=zlib.compressobj(9,zlib.DEFLATED,-15); raw=c.compress(data)+c.flush()
    bl=parse(raw)
    print("-- kinds:",[b[0] for b in bl],"raw",len(raw),"data",len(data))
    print("def exData : Bytes := [%s]"%", ".join(map(str,data)))
    print("def exRaw : Bytes := [%s]"%", ".join(map(str,raw)))
    print("def exBlocks : List Block := [%s]"%",\n  ".join(map(lean_block,bl)))
