import zlib, random
import os, sys
sys.path.insert(0, os.path.dirname(os.path.abspath(__file__)))
from deflate_blocks import parse, lean_block
rng=random.Random(1)
part1=bytes(rng.choices(b"abcdefg",weights=[40,20,10,10,5,3,2],k=60))
part2=b"Hi!"
c=zlib.compressobj(9,zlib.DEFLATED,-15)
raw=c.compress(part1)+c.flush(zlib.Z_FULL_FLUSH)+c.compress(part2)+c.flush()
bl=parse(raw)
assert zlib.decompress(raw,-15)==part1+part2
kinds=[b[0] for b in bl]
print("-- kinds:",kinds,"raw",len(raw),"data",len(part1+part2))
data=part1+part2
out=[]
out.append("import Hm.BlockCheck\nimport Hm.C13Bytes\n")
out.append("/-! Non-vacuity of the block theorems: a stream written by zlib 1.x (level 9, one `Z_FULL_FLUSH`) — a dynamic-Huffman\n    block, an empty stored block and a fixed-Huffman block — has exactly the bits `blocksBits 0 exBlocks` followed by the padding of the last byte (`exBitList`, `ex_bytes`) for the\n    block description below (recovered from the stream by tools/deflate_blocks.py), the description satisfies `Block.Ok`, and\n    its expansion is the data.  All three facts are evaluated by the kernel. -/\n")
out.append("def exData : Bytes := [%s]\n"%", ".join(map(str,data)))
out.append("def exRaw : Bytes := [%s]\n"%", ".join(map(str,raw)))
out.append("def exBlocks : List Block := [%s]\n"%",\n  ".join(map(lean_block,bl)))
bits=[(raw[k//8]>>(k%8))&1 for k in range(parse.nbits)]
out.append("/-- the bits of `exRaw`, least significant first, without the padding of the last byte -/\ndef exBitList : List Bool := [%s]\n"%", ".join("true" if b else "false" for b in bits))
pad=[(raw[k//8]>>(k%8))&1 for k in range(parse.nbits,8*len(raw))]
out.append("def exPad : List Bool := [%s]\n"%", ".join("true" if b else "false" for b in pad))
open("Example.lean","w").write("\n".join(out))
print(kinds)
tail='''
/-- the bits zlib wrote are the encoding of the block description -/
theorem ex_bits0 : blocksBits 0 exBlocks = exBitList := by decide +kernel

/-- the description respects the format -/
theorem ex_ok : exBlocks.all blockOkB = true := by decide +kernel

/-- and expands to the data -/
theorem ex_expand : (expandBlocks #[] exBlocks).toList = exData := by decide +kernel

/-- the bytes zlib wrote spell those bits and the padding of the last byte -/
theorem ex_bytes : byteBits exRaw = exBitList ++ exPad := by decide +kernel

/-- hence, by `C13_inflateRaw_bytes` (not by running the decoder), zlib's stream inflates to the data -/
theorem ex_inflate : inflateRaw exRaw = some exData := by
  have h := C13_inflateRaw_bytes exRaw exBlocks exPad (by decide) (fun b hb => blockOkB_sound b (List.all_eq_true.mp ex_ok b hb))
    (by rw [ex_bits0]; exact ex_bytes)
  rw [ex_expand] at h
  exact h
'''
open("Example.lean","a").write(tail)
