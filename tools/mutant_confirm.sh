#!/bin/bash
# usage: tools/mutant_confirm.sh <Cnn> <k>  — confirms a seeded change in its scratch worktree /tmp/mut/<Cnn>:
# suite passes with it, demo fails with it, demo passes without it.
set -u
id=$1; k=$2; w=/tmp/mut/$id; o=/tmp/mut/$id-out
export CARGO_NET_OFFLINE=true
cd $w || exit 2
git checkout -q -- . ; rm -rf tests
git apply $o/patch$k.diff || { echo "APPLY-FAILED"; exit 2; }
suite=$(cargo test --offline 2>&1 | grep -E "^test result:" | head -2 | tr '\n' ' ')
mkdir -p tests; cp $o/demo$k.rs tests/demo.rs
with=$(cargo test --offline --test demo 2>&1 | grep -E "^test result:|^error" | head -1)
git checkout -q -- .
without=$(cargo test --offline --test demo 2>&1 | grep -E "^test result:|^error" | head -1)
rm -rf tests
echo "suite-with-change: $suite"
echo "demo-with-change : $with"
echo "demo-without     : $without"
