#!/bin/bash
# development tool: region / line coverage of /repo/src under the op lines of the quick tier of all 18 checks
# (nightly toolchain for -C instrument-coverage and its llvm-cov; scratch space outside /repo and /verif, removed at the end)
set -e
cd "$(dirname "$0")/.."
S=${SCRATCH:-/root/scratch/cov.$$}
B=$(dirname "$(find ~/.rustup/toolchains/nightly-x86_64-unknown-linux-gnu -name llvm-cov | head -1)")
mkdir -p $S/h && cp -r harness/Cargo.toml harness/Cargo.lock harness/src harness/.cargo $S/h/
(cd $S/h && LLVM_PROFILE_FILE=$S/build-%p.profraw.ignore CARGO_NET_OFFLINE=true RUSTFLAGS="-C instrument-coverage" cargo +nightly build --offline --quiet)
git stash -q -- evidence 2>/dev/null || true
for p in C01 C02 C03 C04 C05 C06 C07 C08 C09 C10 C11 C12 C13 C14 C15 C16 C17 C18; do
  VERIF_DUMP_OPS=$S/ops.txt ./check $p --tier quick --no-proof >/dev/null 2>&1 || true
done
git checkout -q -- evidence; git stash pop -q 2>/dev/null || true
(cd $S && split -n l/16 ops.txt part_ && for f in part_*; do LLVM_PROFILE_FILE=$S/$f.profraw $S/h/target/debug/hx exec < $f >/dev/null 2>&1 & done; wait)
$B/llvm-profdata merge -sparse $S/*.profraw -o $S/all.profdata
wc -l < $S/ops.txt | sed 's/^/op lines: /'
$B/llvm-cov report $S/h/target/debug/hx -instr-profile=$S/all.profdata /repo/src/*.rs
$B/llvm-cov show $S/h/target/debug/hx -instr-profile=$S/all.profdata /repo/src/*.rs --show-line-counts-or-regions 2>/dev/null | grep -B1 -A1 "^ *[0-9]*| *0|" || true
rm -rf $S
