#!/usr/bin/env python3
"""usage: tools/refactor_batch.py R01:1 R01:2 ...   (development tool for the false-alarm study, DESIGN.md §0.6d)

For each behaviour-preserving refactoring delivered by a sub-agent in /tmp/ref/<Rnn>-out/: confirm in its scratch worktree
that the crate's suite passes with it, apply it to /repo, run the quick checks of all 18 properties, undo it, and record
everything under /verif/refactors/<Rnn>_<k>/ (patch.diff, meta.txt, result.json)."""
import json
import os
import shutil
import sys

sys.path.insert(0, os.path.dirname(os.path.abspath(__file__)))
from mutant_batch import sh, run_checks, ROOT, ALL   # noqa: E402

REF = os.environ.get("REF_DIR", "/tmp/ref")


def main():
    for item in sys.argv[1:]:
        rid, k = item.split(":")
        w, o = "%s/%s" % (REF, rid), "%s/%s-out" % (REF, rid)
        patch = "%s/patch%s.diff" % (o, k)
        print("=== %s refactoring %s" % (rid, k), flush=True)
        sh("git checkout -q -- . ; rm -rf tests", w)
        rc, out = sh("git apply %s" % patch, w)
        if rc != 0:
            print("   does not apply:", out[-300:])
            continue
        rc, out = sh("cargo test --offline 2>&1 | grep -E '^test result|^error|^warning: unused' | head -4", w)
        suite = out.strip().replace("\n", " | ")
        sh("git checkout -q -- .", w)
        print("   suite:", suite, flush=True)
        res = run_checks(patch, ALL)
        if "error" in res:
            print("   ", res["error"])
            continue
        alarms = [p for p in ALL if res[p]["rc"] != 0]
        print("   alarms:", alarms, flush=True)
        d = os.path.join(ROOT, "refactors", "%s_%s" % (rid, k))
        os.makedirs(d, exist_ok=True)
        shutil.copy(patch, d + "/patch.diff")
        if os.path.exists("%s/meta%s.txt" % (o, k)):
            shutil.copy("%s/meta%s.txt" % (o, k), d + "/meta.txt")
        json.dump({"id": "%s_%s" % (rid, k), "author": "fresh sub-agent asked for a behaviour-preserving refactoring (all 18 property texts given, nothing from /verif)",
                   "suite_with_change": suite, "alarms": alarms, "results": {p: res[p] for p in ALL if res[p]["rc"] != 0}}, open(d + "/result.json", "w"), indent=1)


if __name__ == "__main__":
    main()
