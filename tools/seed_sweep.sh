#!/bin/bash
# development tool: quick checks of all properties under many seeds; prints only non-OK results
cd "$(dirname "$0")/.."
[ -x lean/.lake/build/bin/httpmodel ] || ./setup.sh >/dev/null 2>&1
for s in "$@"; do
  for p in C01 C02 C03 C04 C05 C06 C07 C08 C09 C10 C11 C12 C13 C14 C15 C16 C17 C18; do
    out=$(./check $p --seed $s 2>&1); rc=$?
    [ $rc -ne 0 ] && { echo "seed=$s $p rc=$rc"; echo "$out" | grep -E "^VIOLATION|^failing|^FAILED|^corresp" | head -5; cp replays/$p-* /tmp/ 2>/dev/null; }
  done
  echo "seed $s done"
done
