#!/bin/bash
# development tool: thorough tier of all properties (prints the summary line and anything that is not OK)
cd "$(dirname "$0")/.."
[ -x lean/.lake/build/bin/httpmodel ] || ./setup.sh >/dev/null 2>&1
for p in C01 C02 C03 C04 C05 C06 C07 C08 C09 C10 C11 C12 C13 C14 C15 C16 C17 C18; do
  out=$(./check $p --tier thorough --seed ${1:-1} 2>&1); rc=$?
  echo "$out" | tail -1
  [ $rc -ne 0 ] && { echo "$out" | grep -E "^VIOLATION|^failing|^corresp|^  (op|impl|model)" | head -12; cp replays/$p-* /tmp/ 2>/dev/null; }
done
exit 0
