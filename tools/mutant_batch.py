#!/usr/bin/env python3
"""usage: tools/mutant_batch.py C04:1 C04:2 ...   (development tool for the seeded-change study)

For each seeded change delivered by a sub-agent in /tmp/mut/<Cnn>-out/: confirm it in its scratch worktree
(/tmp/mut/<Cnn>: suite passes with it, demo fails with it, demo passes without it), then apply it to /repo, run the
quick checks, undo it, and record everything under /verif/seeded/<Cnn>_<k>/ (patch.diff, demo.rs, meta.json)."""
import json
import os
import re
import shutil
import subprocess
import sys

ROOT = os.path.dirname(os.path.dirname(os.path.abspath(__file__)))
MUT = os.environ.get("MUT_DIR", "/tmp/mut")          # where the sub-agents' worktrees and deliverables are
PREFIX = os.environ.get("MUT_PREFIX", "")            # prefix of the ids under seeded/ (second round: R2_)
ALL = ["C%02d" % i for i in range(1, 19)]


def sh(cmd, cwd=None, timeout=3600):
    env = dict(os.environ, CARGO_NET_OFFLINE="true")
    p = subprocess.run(cmd, shell=True, cwd=cwd, env=env, stdout=subprocess.PIPE, stderr=subprocess.STDOUT, text=True, timeout=timeout)
    return p.returncode, p.stdout


def confirm(cid, k):
    w, o = "%s/%s" % (MUT, cid), "%s/%s-out" % (MUT, cid)
    sh("git checkout -q -- . ; rm -rf tests", w)
    rc, out = sh("git apply %s/patch%s.diff" % (o, k), w)
    if rc != 0:
        return {"applies": False, "log": out[-500:]}
    rc, out = sh("cargo test --offline 2>&1 | grep -E '^test result:|^error' | head -3", w)
    suite = out.strip().replace("\n", " | ")
    os.makedirs(w + "/tests", exist_ok=True)
    shutil.copy("%s/demo%s.rs" % (o, k), w + "/tests/demo.rs")
    rc, out = sh("cargo test --offline --test demo 2>&1 | grep -E '^test result:|^error' | head -1", w)
    with_change = out.strip()
    sh("git checkout -q -- .", w)
    rc, out = sh("cargo test --offline --test demo 2>&1 | grep -E '^test result:|^error' | head -1", w)
    without = out.strip()
    sh("rm -rf tests", w)
    ok = ("75 passed; 0 failed" in suite and "FAILED" not in suite and ("FAILED" in with_change or "error: test failed" in with_change) and "ok." in without and "FAILED" not in without)
    return {"applies": True, "suite_with_change": suite, "demo_with_change": with_change, "demo_without_change": without, "confirmed": ok}


def run_checks(patch, props):
    rc, out = sh("git -C /repo diff --quiet")
    if rc != 0:
        raise SystemExit("/repo is not clean")
    rc, out = sh("git -C /repo apply %s" % patch)
    if rc != 0:
        return {"error": "patch does not apply to /repo: " + out[-300:]}
    results = {}
    try:
        for p in props:
            rc, out = sh("./check %s --tier quick" % p, ROOT)
            lines = out.strip().splitlines()
            viol = [l for l in lines if l.startswith("VIOLATION")]
            fi = [l for l in lines if l.startswith("failing input")]
            results[p] = {"rc": rc, "summary": lines[-1] if lines else "", "violations": [v[:300] for v in viol[:3]],
                          "failing_inputs": [f[:300] for f in fi[:3]],
                          "kind": ("failing-input" if any("no-failing-input-found" not in v for v in viol) else "no-failing-input-found") if viol else None}
    finally:
        sh("git -C /repo checkout -- .")
        sh("cargo build --offline --quiet; cargo build --offline --quiet --release", ROOT + "/harness")
    return results


def main():
    for item in sys.argv[1:]:
        cid, k = item.split(":")
        o = "%s/%s-out" % (MUT, cid)
        d = os.path.join(ROOT, "seeded", "%s%s_%s" % (PREFIX, cid, k))
        print("=== %s change %s" % (cid, k), flush=True)
        conf = confirm(cid, k)
        print("   confirm:", json.dumps(conf)[:400], flush=True)
        if not conf.get("confirmed"):
            os.makedirs(os.path.join(ROOT, "seeded", "_rejected"), exist_ok=True)
            json.dump(conf, open(os.path.join(ROOT, "seeded", "_rejected", "%s%s_%s.json" % (PREFIX, cid, k)), "w"), indent=1)
            continue
        if os.environ.get("MUT_FAST"):      # owner first; the other 17 only when the owner stays quiet
            res = run_checks("%s/patch%s.diff" % (o, k), [cid])
            if "error" not in res and res[cid]["rc"] == 0:
                if os.environ.get("MUT_NEIGHBOURS"):     # the checks that exercise the same code, not all 18 (time)
                    fam = [["C01", "C02", "C03", "C04", "C05", "C06", "C07", "C08", "C09", "C17"], ["C13", "C14", "C15", "C16", "C18"], ["C02", "C04", "C10", "C11", "C12", "C18"]]
                    near = sorted(set(x for f in fam if cid in f for x in f))
                    res = run_checks("%s/patch%s.diff" % (o, k), near)
                    for p in ALL:
                        res.setdefault(p, {"rc": 0, "summary": "not run (MUT_NEIGHBOURS)", "violations": [], "failing_inputs": [], "kind": None})
                else:
                    res = run_checks("%s/patch%s.diff" % (o, k), ALL)
            elif "error" not in res:
                for p in ALL:
                    res.setdefault(p, {"rc": 0, "summary": "not run (MUT_FAST: the owner check reported the change)", "violations": [], "failing_inputs": [], "kind": None})
        else:
            res = run_checks("%s/patch%s.diff" % (o, k), ALL)
        if "error" in res:
            print("   ", res["error"])
            continue
        caught = [p for p in ALL if res[p]["rc"] != 0]
        print("   caught by:", caught, " owner caught:", cid in caught, flush=True)
        os.makedirs(d, exist_ok=True)
        shutil.copy("%s/patch%s.diff" % (o, k), d + "/patch.diff")
        shutil.copy("%s/demo%s.rs" % (o, k), d + "/demo.rs")
        metatxt = open("%s/meta%s.txt" % (o, k)).read() if os.path.exists("%s/meta%s.txt" % (o, k)) else ""
        meta = {
            "id": "%s%s_%s" % (PREFIX, cid, k),
            "breaks_property": cid,
            "author": "fresh sub-agent given only the property text and a scratch worktree",
            "needs_to_manifest": metatxt,
            "confirmation": {"how": "tools/mutant_confirm.sh / mutant_batch.py in the scratch worktree: cargo test --offline (suite), cargo test --offline --test demo with and without the change", **conf},
            "checks_run": "git -C /repo apply patch.diff; ./check Cnn --tier quick for all 18 properties; git -C /repo checkout -- .",
            "caught_by": caught,
            "owner_property_caught": cid in caught,
            "results": {p: res[p] for p in ALL if res[p]["rc"] != 0 or p == cid},
        }
        json.dump(meta, open(d + "/meta.json", "w"), indent=1)


if __name__ == "__main__":
    main()
