#!/usr/bin/env python3
"""writes /verif/MANIFEST.json (kept in step with lean/theorems.json and the property registry)"""
import json
import os
import sys

ROOT = os.path.dirname(os.path.dirname(os.path.abspath(__file__)))
sys.path.insert(0, ROOT)

TEXT = {
    "C01": ("Proved for every URI implementation, every limit triple and every delivery list: C01_request_delivery_independent (the run over any segmentation is equivalent — verdict class, total consumed, public fields on completion, whole state while waiting — to the one-piece run), by the resumable-phase laws P1-P3 of DESIGN.md §5.1; the pinned tree's violation is kept as a kernel-checked refutation (C01_pinned_false). Tie to the code: differential run of the compiled model against the crate on segmented streams with limits at the exact element lengths, plus the implementation-only oracle one-piece vs every schedule.",
            "full"),
    "C02": ("Proved for every delivery list, all three framings and every header line limit a caller may set: C02_response_delivery_independent, C05_chunk_delivery_independent, C09_response_suffix_irrelevant, C04_prefix_never_rejected (the dependency's dangling-CR rule is shielded by repair F1c, which is part of the model).",
            "full"),
    "C03": ("Proved: C03_accept_iff — for every URI implementation, limit triple and byte string the parser accepts a complete request with given fields after n bytes IFF the string is line CRLF header-block body tail with the line in the request-line grammar, the block accepted in full by the header parser, the body of the declared length, line and total within their limits (with C03_accept_complete / C03_accept_sound as the two halves). Further: soundness of acceptance for whole messages (C03_accept_sound: a completed parse implies request line, fully accepted header block, body framed by Content-Length, exact consumption and exactly extracted fields), request-line grammar in both directions (C03_request_line_sound / _complete), the six request-line rejection categories (C03_request_line_category), the prefix clause (C03_prefix_never_rejected, C03_accepted_prefix_not_rejected), the limit clauses (C08_*), digits-only Content-Length (C17). C03_verdict: the parser equals a straight-line decision list over the elements in order, with every rejection category as a corollary (C03_cat_line_too_long, _not_text, _request_line, _header, _content_length, C03_rejected_by_block_end) and C03_proper_prefix_more. Well-formedness of header fields is delegated to the header parser model (as the property delegates it to the message-header library). Framing of a request is a function of its Content-Length fields alone (C03_framing_only_content_length, C03_framing_other_fields).",
            "full; header-field well-formedness defined by the header parser model"),
    "C04": ("Proved: C04_accept_iff — for every header line limit and byte string, completion after n bytes in a given state IFF status line in the grammar, header block accepted in full, then the body the headers select in the order Content-Length > chunked (grammar Sound of C05, state = de-chunk rewrite) > none (halves: C04_accept_complete_fixed/_chunked/_none and C04_accept_sound). Further: C04_accept_sound (status line, header block, framing precedence Content-Length > chunked > none, exact consumption, trailing data kept), C04_status_line_sound, C04_status_line_category, the four framing lemmas, C04_prefix_never_rejected, C17_status_code; C04_verdict: the parser equals a decision list; categories C04_cat_not_text, _status_line, _header, _content_length, _chunked and, for the chunk decoder from any state, C05_cat_size_not_text, _size_invalid, _terminator, _trailer; C04_proper_prefix_more. Framing is a function of the Content-Length and Transfer-Encoding fields alone: C04_framing_only_framing_fields, C04_framing_insert_other (a field of any other name and value changes nothing), C04_framing_status_irrelevant.",
            "full; header-field well-formedness defined by the header parser model"),
    "C05": ("Proved: C05_complete_iff — the decoder completes after n bytes IFF those bytes are a chunked body of the grammar Sound (C05_sound_complete + C05_complete_only_if_wellformed). Also, in both directions for every byte string: C05_roundtrip / C05_roundtrip_parse (every chunk list with hex sizes in any case with leading zeros, ASCII extensions, well-formed trailer fields, any tail: exactly the payload, exactly the trailers, stops at the end) and C05_complete_only_if_wellformed (completion implies the chunked structure `Sound` and that the body is exactly the chunk-data ranges), C17_chunk_size, C05_chunk_delivery_independent.",
            "full (extensions restricted to ASCII text without CR: the implementation rejects non-UTF-8 size lines)"),
    "C06": ("Proved on the model in which every trapping operation of request.rs / response.rs / chunked_body.rs is explicit, for both build profiles and every delivery list: C06_request_no_crash, C06_response_no_crash (a run never ends in a panic). generate / decode_body / decode_body_as_text and the trap sites inside the dependencies are covered by observation only (supervised execution, both profiles). Known finding KF1 (rhymessage generate, limit < 2).",
            "partial: proof for the parsers' own arithmetic/indexing, exploration for the rest"),
    "C07": ("Proved, for every limit configuration, every declared value and every delivery list to a fresh parser: what the parsers retain is bounded by what they consumed — method, header names and values, body, de-chunking buffer, trailer fields never exceed the few bytes of the initial state plus the input bytes consumed, which never exceed the bytes delivered (C07_request_retained_bounded / _vs_delivered, C07_response_retained_bounded, C07_response_payload_bounded / _vs_delivered, C07_chunk_retained_bounded from any state; generic Sys.run_size, Headers.parse_size); and for every parse call from every state each Vec::reserve the parsers issue asks for no more than the bytes presented to that call (C07_request_reserve_bounded, C07_chunk_reserve_bounded, C07_response_reserve_bounded). No declared length occurs in any bound. The growth policy of Vec / String inside std and the dependencies is measured with a counting allocator (largest single request <= 4 KiB + 8 x the bytes presented so far to that message, live bytes <= 8 KiB + 16 x the same), also after errors and with limits changed between calls, not proved.",
            "partial: proof for retained data and reservation logic, measurement for the allocator side"),
    "C08": ("Proved: C08_request_line_exact (+ _unterminated, _none), C08_header_line_exact (+ _none) for the first line of each field, C08_accept_within_max, C08_more_implies_within_max (a caller following the protocol never buffers more than the maximum). The implementation is also checked against an independent measurement of every element. Known finding KF2 (continuation lines are not measured by the dependency).",
            "full for request line, first header lines and total; known finding KF2"),
    "C09": ("Proved: C09_request_pipeline, C09_response_pipeline (k messages back to back are split at the same offsets into the same messages), C09_response_suffix_irrelevant; with the suffix law P1 of every phase.",
            "full"),
    "C10": ("Proved: C10_response_roundtrip_limits / C10_request_roundtrip_limits (every well-formed value, any configured limits the lines fit, generic in the URI implementation under the URI law at the target), C10_*_regenerate, and the URI law of the rhymuri model for origin-form targets with arbitrary segment, query and fragment bytes (C10_request_roundtrip_origin), `*` (C10_request_roundtrip_star) and absolute-form targets scheme://[userinfo@]host[:port]/path?query#fragment with a lower-case registered-name host (C10_request_roundtrip_absolute, via Rhymuri.parse_display_absolute), with the percent-codec inverse for every byte string. IP-literal hosts and relative references: correspondence (model = implementation on the URI grammar) and the implementation-side round-trip oracle. Known finding KF3 (rhymuri display/parse).",
            "full for responses; requests under the URI law, proved for origin-form, * and reg-name absolute-form targets (dependency finding KF3 where the law fails)"),
    "C11": ("Proved: C11_request_reparse — for every accepted request (any method the parser accepts, non-ASCII included; any limits on the first parse; any limits the regenerated line and total fit on the second) generate + parse returns the same method, target, header list and body with the whole output consumed, under the URI law at the parsed target (proved for the rhymuri model on reg-name absolute-form targets, C11_request_reparse_absolute, and on origin-form paths: C11_request_reparse_rhymuri); C11_response_reparse_plain (declared-length and body-less responses, any reason phrase, any header line limit) and C11_response_reparse_dechunked (the de-chunked message regenerates to a Content-Length-framed message with Content-Length = length of the de-chunked body that parses back to the same fields); C11_headers_reparse. Supporting: UTF-8 validity survives a cut at an ASCII byte (validUtf8_cut_left, validUtf8_ascii_append, against core's IsValidUTF8), well-formedness of the rewritten header list (rewritten_wf). Known finding KF3 (rhymuri display/parse) is where the URI law fails.",
            "full where the re-serialised header lines fit the line limit (folded lines: dependency finding KF4); requests under the URI law (dependency finding KF3 where it fails)"),
    "C12": ("Proved by header-list algebra for every original header list, every list of other codings and every trailer list: C12_content_length, C12_transfer_encoding, C12_no_trailer, C12_others; plus an independent post-condition checker on the implementation.",
            "full"),
    "C13": ("Proved for every DEFLATE stream: canonical Huffman decoding is correct for every table of code lengths (decodeSym_canon), the symbol loop for any pair of code books (inflateCodes_book), dynamic block headers with any run-length coded tables (dynamicBlock_spec), stored blocks from any bit offset (storedBlock_spec), any sequence of stored / fixed / dynamic blocks (inflateBlocks_blocks), bare, in gzip (with any optional header fields: C13_gzip_bytes_opt) and in zlib, for byte strings with arbitrary padding bits (C13_inflateRaw_bytes, C13_gzip_bytes, C13_zlib_bytes, sniff_blocks), and at decode_body for every stack of codings each written by ANY conforming encoder (C13_decodeBody_every_encoder; a Deflater is any function to block sequences that respects the format and expands to the body). Non-vacuity against real zlib output: Hm/C13Example (kernel-evaluated) and the encoder-spec family of the check (every level / strategy / flush pattern: description satisfies Block.Ok, re-encodes bit for bit, expands to the data). Fidelity of the inflate model to flate2/miniz_oxide: correspondence. The decoded content depends on the Content-Encoding fields alone (C13_decode_only_content_encoding, C13_decode_other_fields).",
            "full for the model of flate2 on single-member gzip, zlib and bare deflate; model fidelity by correspondence; gzip bodies of several members: known finding KF5"),
    "C14": ("Proved for arbitrary codec functions: C14_failure_atomic, C14_content_length, C14_content_encoding, C14_others_unchanged; instance with the modelled decoders C13_decodeBody_level0_stacks; independent post-condition checker on the implementation.",
            "full"),
    "C15": ("Proved on the container/inflate model for all byte strings: truncation theorems at the entry points (C15_gunzip_truncated, C15_zlibDecode_truncated, C15_inflateRaw_truncated, and hypothesis-free for every level-0 stream), checks applied (C15_gzip_check, C15_zlib_check), altered trailers rejected (C15_gzip_field_altered, C15_zlib_field_altered), header checks (C15_gzip_signature, C15_zlib_header), lifted to decode_body for the gzip layer. Single-bit flips inside compressed data are checked on the implementation against the three allowed outcomes with an independent CRC-32 / Adler-32. Whether a body is refused does not depend on any field but Content-Encoding (C15_decode_insert_other).",
            "partial: theorems about the model of flate2; fidelity validated on valid streams, truncations and field edits; later members of a multi-member gzip body: known finding KF5"),
    "C16": ("Proved: C16_some_only_if_text, C16_default_charset, C16_charset_decides, C16_charset_first_param and C16_charset_absent (which parameter decides, for every parameter list), C16_utf8_exact (against core's declarative IsValidUTF8), C16_latin1_total, C16_latin1_ascii, C16_latin1_no_replacement, kernel-evaluated label facts over the 228-row table, C18_charset_label_case. Legacy multi-byte decoders are not modelled (label resolution and absence of U+FFFD checked on the implementation). The text depends on the Content-Type fields alone (C16_text_only_content_type, C16_text_insert_other).",
            "full for UTF-8 and the default; legacy decoders by observation"),
    "C17": ("Proved on the exact model of Rust's integer parsers: C17_request_content_length, C17_chunk_size, C17_status_code (acceptance implies digits only); exhaustive strings over a 13-symbol alphabet in all five positions against the implementation.",
            "full"),
    "C18": ("Proved at byte-stream level: MessageHeaders::parse commutes with ASCII lower-casing of its input (Headers.parse_lower, with validUtf8_lower against core's IsValidUTF8), hence C18_request_stream_case / _block and C18_response_stream_case / _block: two streams with the same first line and tail whose header regions are equal up to letter case (names, chunked, any token) get the same verdict, error, boundary, method/target or status, size accounting, framing, chunk decoding and body, and header lists equal up to case (also after the de-chunking rewrite, dechunkRewrite_case). Decoding: C18_decode_after_parse, C18_decode_case, C18_header_tokens_case, C18_text_name_case, C18_charset_label_case (every byte string). The metamorphic oracle on the implementation and correspondence on permuted streams tie this to the code.",
            "full"),
}

TECH = "Lean 4 theorems about a hand-written executable model + differential correspondence check (model driver vs real crate) + property oracles on the implementation"

NOTE = ("Trusted base: Lean 4.33 kernel; axioms propext, Classical.choice, Quot.sound (audited per theorem, statements pinned by hash); the hand-written model's fidelity "
        "outside the sampled operations (validated by the correspondence run, not proved); the models of rhymessage / rhymuri / flate2 / encoding_rs; the Rust executor, "
        "the Python generators and oracles; Lean compiler for the driver; rustc/cargo. See DESIGN.md §9.")


def main():
    props = [json.loads(l) for l in open(os.path.join(ROOT, "properties.jsonl"))]
    checks = []
    for p in props:
        pid = p["id"]
        text, strength = TEXT[pid]
        checks.append({
            "property_id": pid,
            "quick_cmd": "./check %s --tier quick" % pid,
            "thorough_cmd": "./check %s --tier thorough" % pid,
            "evidence_file": "/verif/evidence/%s.json" % pid,
            "replay_cmd_template": "./check %s --replay {path}" % pid,
            "engine": "lean-model+correspondence",
            "level_claimed": {"category": "proof", "text": text + " Strength: " + strength + ".", "design_ref": "DESIGN.md §6 (%s)" % pid},
            "level_note": NOTE,
            "technique": TECH,
        })
    m = {
        "version": 1,
        "setup_cmd": "./setup.sh",
        "hooks": {
            "guard": "rhymuweb_verif",
            "enable": "none needed: no hooks or instrumentation were added to /repo; the harness crate (harness/) depends on /repo by path and observes it through its public API, a counting global allocator and catch_unwind",
            "baseline_off_cmd": "cd /repo && cargo test --workspace --no-fail-fast --offline",
            "source_commits": [],
            "add_only": True,
        },
        "engines": [
            {"name": "lean-model+correspondence", "path": "/verif/check", "serves_properties": [p["id"] for p in props],
             "kind_free_text": "Lean 4 model and theorems (lean/), line-protocol driver (lean/Main.lean), Rust executor calling the real crate (harness/), Python generators / oracles / verdict (vlib/, check)"},
        ],
        "checks": checks,
        "not_applicable": [],
        "notes": "Repairs of genuine defects are the eight `fix:` commits in /repo listed as `fixed` entries in known_findings.json; dependency defects are `known` entries there (KF1-KF4). See DESIGN.md.",
    }
    json.dump(m, open(os.path.join(ROOT, "MANIFEST.json"), "w"), indent=1)
    print("MANIFEST.json written: %d checks" % len(checks))


if __name__ == "__main__":
    main()
