#!/bin/bash
# usage: tools/mutant_run.sh <patch.diff> [props...]   — applies the patch to /repo, runs the quick checks, undoes it.
# Development tool for the seeded-change study (DESIGN.md §12); never leaves /repo modified.
set -u
patch="$1"; shift
props="${@:-C01 C02 C03 C04 C05 C06 C07 C08 C09 C10 C11 C12 C13 C14 C15 C16 C17 C18}"
cd /verif
git -C /repo diff --quiet || { echo "/repo is not clean"; exit 2; }
git -C /repo apply "$patch" || { echo "patch does not apply"; exit 2; }
trap 'git -C /repo checkout -- . ; (cd /verif/harness && CARGO_NET_OFFLINE=true cargo build --offline --quiet; CARGO_NET_OFFLINE=true cargo build --offline --quiet --release)' EXIT
caught=""
for p in $props; do
  out=$(./check $p --tier quick 2>&1)
  rc=$?
  line=$(echo "$out" | tail -1)
  echo "$p rc=$rc :: $line"
  if [ $rc -ne 0 ]; then caught="$caught $p"; echo "$out" | grep -E "^VIOLATION|^failing input|^correspondence" | head -4; fi
done
echo "CAUGHT-BY:$caught"
