#!/usr/bin/env python3
"""usage: tools/refactor_rerun.py [ids...]   (development tool, DESIGN.md §0.6d)

Re-run the recorded behaviour-preserving refactorings (refactors/<id>/patch.diff, confirmed when they were delivered)
against the quick tier of all 18 checks as they are now: apply to /repo, run, undo, write refactors/<id>/result_rerun.json."""
import json
import os
import sys

sys.path.insert(0, os.path.dirname(os.path.abspath(__file__)))
from mutant_batch import run_checks, ROOT, ALL   # noqa: E402

if os.environ.get("CHECKS"):
    ALL = os.environ["CHECKS"].split()


def main():
    ids = sys.argv[1:] or sorted(d for d in os.listdir(os.path.join(ROOT, "refactors")) if os.path.exists(os.path.join(ROOT, "refactors", d, "patch.diff")))
    for rid in ids:
        d = os.path.join(ROOT, "refactors", rid)
        print("=== %s" % rid, flush=True)
        res = run_checks(os.path.join(d, "patch.diff"), ALL)
        if "error" in res:
            print("   ", res["error"])
            continue
        alarms = [p for p in ALL if res[p]["rc"] != 0]
        print("   alarms:", alarms, flush=True)
        json.dump({"alarms": alarms, "results": {p: res[p] for p in ALL}}, open(os.path.join(d, "result_rerun.json"), "w"), indent=1)


if __name__ == "__main__":
    main()
